----------------------------- MODULE PureTrace -----------------------------
(* code -> spec: validation of recorded calls of the functional API.        *)
(* Every trace line is one public call with its arguments and what the     *)
(* implementation answered.  The expected answer is computed here, by the  *)
(* operators of Spil.tla; a line is accepted when every clause holds.      *)
(* Verdicts are total: a failing line never stops the run, the failing     *)
(* clause names are accumulated and printed by the POSTCONDITION.          *)
EXTENDS Store
Tr == ndJsonDeserialize(IOEnv.TRACE_FILE)
VARIABLES l, fails
Cap == 400

Same(o, x) == o.type = x.type /\ o.fields = x.fields /\ o.string = x.string
IsEmpty(o) == o.type = "" /\ o.fields = <<>> /\ o.string = ""
C(name, ok) == <<name, ok>>

\* ---- C01
SidClauses(e) == LET x == MkFromString(e.call) IN
  << C("noraise", e.obs.raised = ""),
     C("type", e.obs.type = x.type),
     C("fields", e.obs.fields = x.fields),
     C("string", e.obs.string = x.string),
     C("bool", e.obs.truthy = (x.fields # <<>>)),
     C("len", e.obs.len = Len(x.fields)),
     C("same_after_the_user_edited_fields", e.obs.raised # "" \/ (Same(e.obs.again, x) /\ e.obs.again.len = Len(x.fields))) >>

\* ---- C02: every form of a typed Sid denotes the same Sid
FormOk(f, x) == f.raised = "" /\ Same(f, x) /\ f.eq /\ f.req /\ f.heq
FormsClauses(e) == LET x == MkFromString(e.call) IN
  << C("noraise", e.obs.raised = ""),
     C("base", Same(e.obs, x)),
     C("canonical", x.type = "" \/ x.string = JoinStr(DVals(x.fields), "/")),
     C("dict_first_is_natural", x.type = "" \/ MkFromFields(x.fields) = x),
     C("has_forms", x.type = "" \/ Len(e.obs.forms) >= 8) >>
  \o [i \in DOMAIN e.obs.forms |-> C("form_" \o e.obs.forms[i].name, FormOk(e.obs.forms[i], x))]

\* ---- C03: navigation
NavBase(e) == MkFromString(e.call)     \* (a uri in the call forces the type)
GetAsOk(g, x) == g.raised = "" /\ Same(g, GetAs(x, g.key))
NavClauses(e) == LET x == NavBase(e)  o == e.obs IN
  IF o.raised # "" THEN << C("noraise", FALSE) >>
  ELSE
  << C("self", Same(o.self, x)),
     C("parent", o.parent.raised = "" /\ Same(o.parent, Parent(x))),
     C("parent_one_less", x.type = "" \/ Len(x.fields) = 1 \/ Len(o.parent.fields) = Len(x.fields) - 1),
     C("parent_is_prefix", x.type = "" \/ Len(x.fields) = 1 \/ o.parent.fields = SubSeq(x.fields, 1, Len(x.fields) - 1)),
     \* ("/" types the extended string naturally: for a Sid whose type was forced by a uri it may give the natural type)
     C("div_back", x.type = "" \/ Len(x.fields) = 1 \/ e.call.uri # <<>> \/ (o.div.raised = "" /\ Same(o.div, x))),
     C("walk", o.walk.raised = "" /\ (x.type = "" \/ (o.walk.steps = Len(x.fields) - 1 /\ Len(o.walk.end.fields) = 1))),
     C("keytype", o.keytype.raised = "" /\ o.keytype.value = KeyType(x)),
     C("basetype", o.basetype.raised = "" /\ o.basetype.value = BaseType(x)),
     C("len", o.len = Len(x.fields)),
     C("get", o.get = x.fields),
     C("untyped_nav_empty", x.type # "" \/ (IsEmpty(o.parent) /\ \A i \in DOMAIN o.get_as : IsEmpty(o.get_as[i]))) >>
  \o [i \in DOMAIN o.get_as |-> C("get_as_" \o o.get_as[i].key, GetAsOk(o.get_as[i], x))]

\* ---- C04: query application and get_with
QueryBase(e) == MkFromString([op |-> "sid", uri |-> e.call.uri, segs |-> e.call.segs, query |-> <<>>])
QueryExpect(e) ==
  IF e.call.mode = "trailing" THEN ApplyQueryB(QueryBase(e), e.call.pairs)
  ELSE \* get_with(query=q) = Sid(uri ? q): the type of the Sid is forced
       LET b == QueryBase(e) IN
       IF b.string # "" /\ b.fields = <<>> THEN [type |-> "", fields |-> <<>>, string |-> "", branch |-> "Undefined", q |-> <<>>]
       ELSE ApplyQueryB(b, e.call.pairs)
QueryClauses(e) == LET x == QueryExpect(e)  b == QueryBase(e)  o == e.obs
                       pairs == QueryPairs(e.call.pairs)  overlay == Update(b.fields, pairs) IN
  << C("noraise", o.raised = ""),
     C("type", o.type = x.type),
     C("fields", o.fields = x.fields),
     C("string", o.string = x.string),
     \* the property itself, stated on the observation: all-or-nothing
     C("all_or_nothing",
         \/ (o.fields = b.fields /\ o.type = b.type /\ StrContains(o.string, "?"))
         \/ (ToSet(o.fields) = ToSet(overlay) /\ ~StrContains(o.string, "?") /\ o.type # ""
              /\ o.string = JoinStr(DVals(o.fields), "/"))
         \/ (b.type = "" /\ o.type = "")),
     C("overlay_types", x.branch \in {"NoQuery", "NoType", "OneType", "ManyKeepsOld", "ManySearchFirst", "ManyRefused", "Undefined", "UntypedString"}) >>

GetWithClauses(e) == LET b == QueryBase(e)  g == GetWithKw(b, e.call.kw)  o == e.obs
                         undefined == b.string # "" /\ b.fields = <<>> IN
  << C("noraise", o.raised = ""),
     C("never_other_fields", o.type = "" \/ undefined \/ ToSet(o.fields) = ToSet(g.overlay)),
     C("expected", undefined \/ g.res.type = "" \/ Same(o, g.res)),
     C("untyped_when_no_type", undefined \/ g.res.type # "" \/ o.type = "" \/ ToSet(o.fields) = ToSet(g.overlay)),
     C("undefined_gives_empty", ~undefined \/ IsEmpty(o)) >>

\* ---- C14 (value part): equality, hash, order
EqClauses(e) == LET a == MkFromString(e.call.a)  b == MkFromString(e.call.b)  o == e.obs IN
  << C("snap_a", Same(o.a, a)), C("snap_b", Same(o.b, b)),
     C("uri", o.auri = Uri(a) /\ o.buri = Uri(b)),
     C("eq_iff_uri", o.eq = (Uri(a) = Uri(b))),
     C("eq_sym", o.eq = o.eq_sym),
     C("ne", o.ne = ~o.eq),
     C("eq_implies_hash", ~o.eq \/ o.hash_eq),
     C("set_dict", o.in_set = o.eq /\ o.dict_get = o.eq),
     C("eq_str", o.eq_str = (a.string = b.string) /\ o.eq_str_r = o.eq_str),
     C("lt", o.lt = StrLess(a.string, b.string)),    \* (sorted() uses < only; ">" is derived by total_ordering from < and ==, which disagree for same-string Sids of different types)
     C("sorted", o.sorted = (IF StrLess(b.string, a.string) THEN <<b.string, a.string>> ELSE <<a.string, b.string>>)) >>

\* ---- C07: unfolding
ResPairs(x) == {<<r.type, r.segs>> : r \in x.res}
UnfoldOf(c) == IF "extrapolate" \in DOMAIN c /\ c.extrapolate THEN UnfoldExtrapolated(c.search)
               ELSE IF "uniquify" \in DOMAIN c /\ c.uniquify THEN UnfoldUniquified(c.search)
               ELSE Unfold(c.search)
UnfoldClauses(e) == LET x == UnfoldOf(e.call)  o == e.obs IN
  << C("raise_class", o.err = (IF x.err = "spil" THEN "SpilException" ELSE "")),
     C("set_equal", x.err # "" \/ o.err # "" \/ ToSet(o.res) = ResPairs(x)),
     C("no_dup", Cardinality(ToSet(o.res)) = Len(o.res)),
     C("all_typed", \A i \in DOMAIN o.res : o.res[i][1] # ""),
     C("no_query_left", \A i \in DOMAIN o.strings : ~StrContains(o.strings[i], "?")) >>

\* ---- C08 / C09 / C12(list part): list search
LOf(c) == IF c.univ = "" THEN c.L ELSE UniverseSeq(c.univ)
\* FindInList(L, do_extrapolate=True): the list and every proper prefix of every entry (a pure string operation)
ExtrapolatedList(L) == L \o SetToSeq(UNION {{SubSeq(L[i], 1, n) : n \in 1..(Len(L[i]) - 1)} : i \in DOMAIN L} \ ToSet(L))
FindListClauses(e) == LET L == LOf(e.call)  x == FindList(L, e.call.search)  o == e.obs
                          xx == FindList(ExtrapolatedList(L), e.call.search) IN
  << C("opt_extrapolate", ~xx.pre \/ (o.x_err = (IF xx.err = "spil" THEN "SpilException" ELSE "") /\
                             (xx.err # "" \/ (ToSet(o.x_res) = xx.res /\ Cardinality(ToSet(o.x_res)) = Len(o.x_res))))),
     C("opt_pre_sort", o.ps_err = o.err /\ ToSet(o.ps_res) = ToSet(o.res) /\ Cardinality(ToSet(o.ps_res)) = Len(o.ps_res)),
     C("err", ~x.pre \/ o.err = (IF x.err = "spil" THEN "SpilException" ELSE "")),
     C("set", ~x.pre \/ x.err # "" \/ o.err # "" \/ ToSet(o.res) = x.res),
     C("nodup", Cardinality(ToSet(o.res)) = Len(o.res)),
     C("subset", ToSet(o.res) \subseteq ToSet(L)),
     C("as_sid_same", o.err # "" \/ (o.err_sid = "" /\ o.sid_strings_same)),
     C("exists", o.err # "" \/ (o.exists.raised = "" /\ o.exists.value = (o.res # <<>>))),
     C("find_one", o.err # "" \/ (o.find_one.raised = "" /\
                      IF o.res = <<>> THEN o.find_one.value = <<>> ELSE o.find_one.value = o.res[1])),
     C("find_one_sid", o.err # "" \/ (o.find_one_sid.raised = "" /\
                      IF o.res = <<>> THEN o.find_one_sid.string = "" ELSE o.find_one_sid.string = JoinStr(o.res[1], "/"))) >>
MatchClauses(e) == LET x == FindList(<<e.call.entry>>, e.call.search)  o == e.obs IN
  << C("noraise", o.err = "" \/ (o.err = "SpilException" /\ x.err = "spil")),
     C("match_iff_found", o.err # "" \/ ~o.typed \/ ~x.pre \/ o.value = (e.call.entry \in x.res)) >>

\* ---- C10: the algebra of the search syntax, on observed results
LeafRestrictedObs(sr, res) == {x \in res : \E u \in Unfold(sr).res : LastKey(IdxOf(u.type)) = LeafKeyOf(BaseOfName(u.type)) /\ MatchSegs(u.segs, x)}
AlgebraOn(o, c) ==
  LET P == o.parts  whole == ToSet(o.res)
      anyerr == o.err # "" \/ \E i \in DOMAIN P : P[i].err # "" IN
  /\ \A i \in DOMAIN P : P[i].err \in {"", "SpilException"}
  /\ Cardinality(whole) = Len(o.res) /\ \A i \in DOMAIN P : Cardinality(ToSet(P[i].res)) = Len(P[i].res)
  /\ (anyerr \/
        (IF c.rule = "union" THEN whole = UNION {ToSet(P[i].res) : i \in DOMAIN P}
         ELSE IF c.rule = "starstar" THEN whole = UNION {LeafRestrictedObs(c.parts[i], ToSet(P[i].res)) : i \in DOMAIN P}
         ELSE IF c.rule = "filter" THEN ToSet(P[2].res) = {x \in ToSet(P[1].res) : DGetOr(ResolveFirst(x).fields, c.arg[1], "") = c.arg[2]}
         ELSE ToSet(P[2].res) = {x \in ToSet(P[1].res) : x[c.arg[1]] = c.arg[2]}))
\* the same algebra on the real finders (a type-aware finder may legitimately return fewer entries for the "**" rule
\* than the type-blind list search, never different ones for the other rules)
AlgebraFsClauses(e) == LET c == e.call  R == e.obs.runs IN
  [k \in DOMAIN R |-> C("algebra_" \o c.rule \o "_" \o R[k].name, AlgebraOn(R[k], c))]
AlgebraClauses(e) == LET o == e.obs  c == e.call  P == o.parts
                         whole == ToSet(o.res)
                         anyerr == o.err # "" \/ \E i \in DOMAIN P : P[i].err # "" IN
  << C("noraise", \A i \in DOMAIN P : P[i].err \in {"", "SpilException"}),
     C("nodup", Cardinality(whole) = Len(o.res) /\ \A i \in DOMAIN P : Cardinality(ToSet(P[i].res)) = Len(P[i].res)),
     C("typed_and_matching", anyerr \/ \A x \in whole : ResolveFirst(x).type # "" /\ \E u \in Unfold(c.search).res : MatchSegs(u.segs, x)),
     C("algebra_" \o c.rule, anyerr \/
        (IF c.rule = "union" THEN whole = UNION {ToSet(P[i].res) : i \in DOMAIN P}
         ELSE IF c.rule = "starstar" THEN whole = UNION {LeafRestrictedObs(c.parts[i], ToSet(P[i].res)) : i \in DOMAIN P}
         ELSE IF c.rule = "filter" THEN ToSet(P[2].res) = {x \in ToSet(P[1].res) : DGetOr(ResolveFirst(x).fields, c.arg[1], "") = c.arg[2]}
         ELSE ToSet(P[2].res) = {x \in ToSet(P[1].res) : x[c.arg[1]] = c.arg[2]})) >>

\* ---- C19: extrapolation and pattern replacement of an arbitrary template configuration
NamePh(seq) == [i \in DOMAIN seq |-> <<seq[i].name, seq[i].ph>>]
ExtrapolateClauses(e) == LET cfg == e.call.cfg  o == e.obs
                             out == Extrapolate(cfg.templates, ToSet(cfg.toX))
                             rep == PatternReplace(out, cfg.kps) IN
  << C("noraise", o.err = "" /\ o.err2 = ""),
     C("names_in_order", [i \in DOMAIN o.out |-> o.out[i][1]] = [i \in DOMAIN out |-> out[i].name]),
     C("templates", o.out = NamePh(out)),
     C("replaced", o.replaced = NamePh(rep)) >>

\* ---- C05: Sid -> path -> Sid in every configuration, every spelling of the call
CfgOk(d, x) == LET p == ToPath(d.cfg, x) IN
   /\ d.raised = ""
   /\ (p = <<>>) = d.is_none
   /\ (p # <<>> => SamePath(d.path, p))
   /\ d.kw.raised = "" /\ d.kw.same /\ d.again.raised = "" /\ d.again.same
   /\ \A i \in DOMAIN d.alts : d.alts[i].raised = "" /\ d.alts[i].same
   /\ ("default" \in DOMAIN d => d.default.raised = "" /\ d.default.same)
   /\ (p # <<>> => d.back.raised = "" /\ Same(d.back, x) /\ d.back.eq /\ d.back_str.raised = "" /\ d.back_str.eq)
ToPathClauses(e) == LET x == MkFromString([op |-> "sid", uri |-> e.call.uri, segs |-> e.call.segs, query |-> <<>>])  o == e.obs IN
  << C("self", Same(o.self, x)) >>
  \o [i \in DOMAIN o.cfgs |-> C("cfg_" \o o.cfgs[i].cfg, CfgOk(o.cfgs[i], x))]
  \o << C("noraise", \A i \in DOMAIN o.cfgs : o.cfgs[i].raised = "" /\ o.cfgs[i].kw.raised = ""),
        C("same_up_to_root", \A i, j \in DOMAIN o.cfgs : SameShapeCfg(o.cfgs[i].cfg, o.cfgs[j].cfg) => o.cfgs[i].path = o.cfgs[j].path),
        C("roundtrip", \A i \in DOMAIN o.cfgs : o.cfgs[i].is_none \/ (o.cfgs[i].back.raised = "" /\ Same(o.cfgs[i].back, x))) >>

\* ---- C06: arbitrary paths
FromPathClauses(e) == LET r == FromPath(e.call.cfg, e.obs.lexed)  o == e.obs IN
  << C("noraise", o.raised = "" /\ o.back.raised = ""),
     C("untyped_or_owner", o.raised # "" \/ o.type = "" \/ o.back.same),
     C("type", o.raised # "" \/ r.amb \/ o.type = r.sid.type),
     C("fields", o.raised # "" \/ r.amb \/ o.fields = r.sid.fields),
     C("string", o.raised # "" \/ r.amb \/ o.string = r.sid.string) >>

\* ---- C11 / C12 / C09: every Finder on the same materialised universe, clean and with junk
FinderExpect(name, j, n, L, search) ==
  IF name = "list" THEN FindList(L, search)
  ELSE IF name = "paths_local" THEN FindPaths("local", UIdx[j][n]["local"], search)
  ELSE IF name = "paths_server" THEN FindPaths("server", UIdx[j][n]["server"], search)
  ELSE FindAll(UIdx[j][n], search)
AllPathBacked(search) == LET us == Unfold(search).res IN
  us # {} /\ \A u \in us : ~IsConstType(u.type) /\ \A c \in Cfgs : HasPath(c, u.type)
FinderOk(f, x) ==
  /\ (~x.pre \/ f.err = (IF x.err = "spil" THEN "SpilException" ELSE ""))
  /\ (~x.pre \/ x.err # "" \/ f.err # "" \/ ToSet(f.res) = x.res)
  /\ Cardinality(ToSet(f.res)) = Len(f.res)
C12Ok(f) == f.err # "" \/
  /\ f.sid_same
  /\ f.exists.raised = "" /\ f.exists.value = (f.res # <<>>)
  /\ f.find_one.raised = "" /\ (IF f.res = <<>> THEN f.find_one.value = <<>> ELSE f.find_one.value = f.res[1])
  /\ f.find_one_sid.raised = "" /\ (IF f.res = <<>> THEN f.find_one_sid.string = "" ELSE f.find_one_sid.string = JoinStr(f.res[1], "/"))
FindersClauses(e) == LET c == e.call  R == e.obs.runs IN
  FlattenSeqs([r \in DOMAIN R |->
     << C("list_is_tree_" \o (IF R[r].junk THEN "junk" ELSE "clean"), ToSet(R[r].L) = EntriesOf(UIdx[R[r].junk][c.univ][DefaultCfg])) >>
     \o [k \in DOMAIN R[r].finders |->
           C(R[r].finders[k].name \o (IF R[r].junk THEN "_junk" ELSE ""),
             FinderOk(R[r].finders[k], FinderExpect(R[r].finders[k].name, R[r].junk, c.univ, R[r].L, c.search)))]
     \o [k \in DOMAIN R[r].finders |-> C("c12_" \o R[r].finders[k].name, C12Ok(R[r].finders[k]))]])
  \o << C("noraise", ~FindList(R[1].L, c.search).pre \/ \A r \in DOMAIN R : \A k \in DOMAIN R[r].finders : R[r].finders[k].err \in {"", "SpilException"}),
        C("junk_changes_nothing", \A k \in DOMAIN R[1].finders : ToSet(R[1].finders[k].res) = ToSet(R[2].finders[k].res) /\ R[1].finders[k].err = R[2].finders[k].err),
        C("finders_agree", ~AllPathBacked(c.search) \/ ~TypeComplete(c.search) \/ ~FindList(R[1].L, c.search).pre \/
                           \A k \in DOMAIN R[1].finders : R[1].finders[k].err # "" \/ ToSet(R[1].finders[k].res) = ToSet(R[1].finders[1].res)),
        \* searches that lost a type to the "first type" guess: the type-blind list search answers for the lost types too
        C("finders_agree_despite_type_guess", ~AllPathBacked(c.search) \/ TypeComplete(c.search) \/ ~FindList(R[1].L, c.search).pre \/
                           \A k \in DOMAIN R[1].finders : R[1].finders[k].err # "" \/ ToSet(R[1].finders[k].res) = ToSet(R[1].finders[1].res)) >>

\* ---- C12 (Sid part): exists / children / siblings on the materialised universe
SidReadsClauses(e) == LET idx == UIdx[FALSE][e.call.univ]  x == ResolveFirst(e.call.segs)  o == e.obs IN
  << C("noraise", o.exists.raised = "" /\ o.children.raised = "" /\ o.siblings.raised = ""),
     C("exists", o.exists.value = ExistsSid(idx, x)),
     C("children", ToSet(o.children.res) = ChildrenOf(idx, x) /\ Cardinality(ToSet(o.children.res)) = Len(o.children.res)),
     C("siblings", ToSet(o.siblings.res) = SiblingsOf(idx, x) /\ Cardinality(ToSet(o.siblings.res)) = Len(o.siblings.res)),
     C("children_have_me_as_parent", \A i \in DOMAIN o.children.res : Front(o.children.res[i]) = e.call.segs),
     C("leaf_no_children", x.type = "" \/ KeyType(x) # LeafKeyOf(BaseType(x)) \/ o.children.res = <<>>),
     C("parent_closed", \A i \in DOMAIN o.L : Len(o.L[i]) = 1 \/ \E n \in 1..(Len(o.L[i]) - 1) : SubSeq(o.L[i], 1, n) \in ToSet(o.L)) >>

\* ---- C09: get_last(key) is the single answer of the '>' search, and follows the data
GetLastSid(idx, x, key) == LET r == GetLastOf(idx, x, key) IN IF r = {} THEN EmptySid ELSE ResolveFirst(CHOOSE q \in r : TRUE)
GetLastClauses(e) == LET idx == UIdx[FALSE][e.call.univ]  x == ResolveFirst(e.call.segs)  o == e.obs
                         exp == GetLastSid(idx, x, e.call.key) IN
  << C("noraise", o.raised = ""),
     C("get_last", Same(o.first, exp)),
     C("one_answer_with_the_key", o.first.type = "" \/ DHas(o.first.fields, e.call.key)),
     \* a greater value created next to it is the new answer; once it is removed again, the old answer is back
     C("follows_the_data", ~o.created \/ Same(o.second, o.bumped)),
     C("back_after_removal", Same(o.third, exp)) >>

\* ---- C16: a Getter yields one record per found Sid, in the same order
RecSet(r) == {<<r[i][1], r[i][2]>> : i \in DOMAIN r}
ExpectedRec(c, segs) ==
  LET d == SideDataOf(segs)
      sidv == IF c.enc = "str" THEN {JoinStr(segs, "/")}
              ELSE IF c.enc = "uri" THEN {u.type \o ":" \o JoinStr(segs, "/") : u \in {v \in Unfold(c.search).res : MatchSegs(Star(v.segs), segs)}}
              ELSE {}
      full(sv) == {<<d[i][1], d[i][2]>> : i \in DOMAIN d} \cup (IF c.enc = "none" THEN {} ELSE {<<"sid", sv>>})
      pick(S) == IF c.attrs = <<>> THEN S
                 ELSE {<<c.attrs[k], IF \E p \in S : p[1] = c.attrs[k] THEN (CHOOSE p \in S : p[1] = c.attrs[k])[2] ELSE None>> : k \in DOMAIN c.attrs}
  IN IF c.enc = "none" THEN {pick(full(""))} ELSE {pick(full(sv)) : sv \in sidv}
GetterClauses(e) == LET c == e.call  o == e.obs  idx == UIdx[FALSE][c.univ]
                        us == Unfold(c.search).res
                        x == FindPaths(DefaultCfg, idx[DefaultCfg], c.search)
                        gus == {v \in us : GetterOf(v.type) # ""}
                        ghits == UNION {AllHits(idx, u) : u \in gus}
                        ggts == {u \in gus : HasGt(u)}
                        gP == {GtPos(u) : u \in ggts}
                        ga == IF ggts = {} THEN [pre |-> TRUE, res |-> ghits]
                              ELSE IF Cardinality(gP) # 1 \/ ggts # gus THEN [pre |-> FALSE, res |-> {}]
                              ELSE [pre |-> TRUE, res |-> LastOf(ghits, CHOOSE p \in gP : TRUE)] IN
  << C("noraise", o.raised = ""),
     C("find_is_model", ~x.pre \/ x.err # "" \/ ToSet(o.found) = x.res),
     C("one_per_found", Len(o.got) = Len(o.found)),
     C("same_order_and_data", Len(o.got) # Len(o.found) \/ \A i \in DOMAIN o.got : RecSet(o.got[i]) \in ExpectedRec(c, o.found[i])),
     C("keys_exactly_attrs", c.attrs = <<>> \/ \A i \in DOMAIN o.got : [k \in DOMAIN o.got[i] |-> o.got[i][k][1]] = c.attrs),
     C("get_one", (o.found = <<>> /\ o.get_one = <<>>) \/ (o.found # <<>> /\ o.got # <<>> /\ o.get_one = o.got[1])),
     C("get_data_of_first", o.found = <<>> \/ RecSet(o.get_data) \in ExpectedRec(c, o.found[1])),
     C("get_attr", o.found = <<>> \/ o.get_attr = (IF SideDataOf(o.found[1]) = <<>> THEN None ELSE SideDataOf(o.found[1])[1][2])),
     \* 'sid' is an attribute of the record like any other (GetFromPaths, and GetFromAll where the type has a Getter)
     C("get_attr_sid", o.found = <<>> \/ (o.get_attr_sid[1] = JoinStr(o.found[1], "/") /\
                         (o.get_attr_sid[2] = JoinStr(o.found[1], "/") \/ GetterOf(ResolveFirst(o.found[1]).type) = ""))),
     \* GetFromAll: the typed searches that have a Getter, all given together to that Getter ('>' is applied per group over all of them)
     C("getfromall", x.err # "" \/ ~ga.pre \/ {JoinStr(r, "/") : r \in ga.res} = ToSet(o.all_sids)),
     C("getfromall_count", x.err # "" \/ ~ga.pre \/ Cardinality(ToSet(o.all_sids)) = Len(o.all_sids)),
     \* where every unfolded type is served by the path Getter, GetFromAll yields the very same records (as a bag)
     C("getfromall_records", x.err # "" \/ ~x.pre \/ (\E u \in us : GetterOf(u.type) # "GetFromPaths") \/
          (Len(o.all_recs) = Len(o.got) /\
           \A r \in ToSet(o.all_recs) : Cardinality({i \in DOMAIN o.all_recs : o.all_recs[i] = r}) = Cardinality({i \in DOMAIN o.got : o.got[i] = r}))) >>

Clauses(e) ==
  IF "raised" \in DOMAIN e.obs /\ StrStarts(e.obs.raised, "HARNESS") THEN << C("harness", FALSE) >>
  ELSE CASE e.call.op = "sid"     -> SidClauses(e)
         [] e.call.op = "forms"   -> FormsClauses(e)
         [] e.call.op = "nav"     -> NavClauses(e)
         [] e.call.op = "query"   -> QueryClauses(e)
         [] e.call.op = "getwith" -> GetWithClauses(e)
         [] e.call.op = "eqlaws"  -> EqClauses(e)
         [] e.call.op = "unfold"  -> UnfoldClauses(e)
         [] e.call.op = "findlist" -> FindListClauses(e)
         [] e.call.op = "match"   -> MatchClauses(e)
         [] e.call.op = "algebra" -> AlgebraClauses(e)
         [] e.call.op = "algebrafs" -> AlgebraFsClauses(e)
         [] e.call.op = "extrapolate" -> ExtrapolateClauses(e)
         [] e.call.op = "topath"  -> ToPathClauses(e)
         [] e.call.op = "finders" -> FindersClauses(e)
         [] e.call.op = "sidreads" -> SidReadsClauses(e)
         [] e.call.op = "getlast" -> GetLastClauses(e)
         [] e.call.op = "getter" -> GetterClauses(e)
         [] e.call.op = "frompath" -> FromPathClauses(e)
         [] OTHER -> << C("unknown_op", FALSE) >>

\* coverage tag of a line (which row of a decision table / which case the line exercised)
Tag(e) ==
  IF e.call.op = "sid" THEN LET x == MkFromString(e.call) IN
        "sid:" \o (IF x.type = "" THEN "untyped" ELSE x.type) \o (IF e.call.uri = <<>> THEN "" ELSE ":forced")
  ELSE IF e.call.op = "query" THEN "query:" \o e.call.mode \o ":" \o QueryExpect(e).branch
  ELSE IF e.call.op = "getwith" THEN "getwith:" \o (IF GetWithKw(QueryBase(e), e.call.kw).res.type = "" THEN "untyped" ELSE "typed")
  ELSE IF e.call.op = "forms" THEN "forms:" \o MkFromString(e.call).type
  ELSE IF e.call.op = "nav" THEN "nav:" \o e.call.via \o ":" \o (IF NavBase(e).type = "" THEN "untyped" ELSE "typed")
  ELSE IF e.call.op = "unfold" THEN LET x == UnfoldOf(e.call) IN
        "unfold:" \o (IF "extrapolate" \in DOMAIN e.call /\ e.call.extrapolate THEN "extrapolate:" ELSE IF "uniquify" \in DOMAIN e.call /\ e.call.uniquify THEN "uniquify:" ELSE "") \o (IF x.err # "" THEN "error" ELSE IF x.res = {} THEN "nothing" ELSE IF Cardinality(x.res) = 1 THEN "one" ELSE "many")
  ELSE IF e.call.op = "findlist" THEN LET x == FindList(LOf(e.call), e.call.search) IN
        "findlist:" \o (IF x.err # "" THEN "error" ELSE IF ~x.pre THEN "gt-precondition-false"
                        ELSE (IF x.sorted THEN "gt:" ELSE "star:") \o (IF x.res = {} THEN "nothing" ELSE "found"))
  ELSE IF e.call.op = "algebrafs" THEN "algebrafs:" \o e.call.rule
  ELSE IF e.call.op = "algebra" THEN "algebra:" \o e.call.rule \o ":" \o (IF e.call.rule = "union" THEN e.call.arg[1] ELSE "") \o (IF e.obs.res = <<>> THEN ":empty" ELSE ":found")
  ELSE IF e.call.op = "extrapolate" THEN
        "extrapolate:" \o (IF e.call.cfg.toX = <<>> THEN "none" ELSE IF Len(e.call.cfg.toX) = 1 THEN "one" ELSE "many")
                       \o (IF e.call.cfg.kps = <<>> THEN "" ELSE ":replace")
  ELSE IF e.call.op = "topath" THEN LET x == MkFromString([op |-> "sid", uri |-> e.call.uri, segs |-> e.call.segs, query |-> <<>>]) IN
        "topath:" \o (IF x.type = "" THEN "untyped" ELSE IF \E c \in PathConfigs : HasPath(c, x.type) THEN x.type ELSE "nopath")
  ELSE IF e.call.op = "frompath" THEN LET r == FromPath(e.call.cfg, e.obs.lexed) IN
        "frompath:" \o e.call.cfg \o ":" \o (IF r.amb THEN "ambiguous" ELSE IF r.sid.type = "" THEN "untyped" ELSE "typed")
  ELSE IF e.call.op = "finders" THEN LET x == FindAll(UIdx[FALSE][e.call.univ], e.call.search) IN
        "finders:" \o (IF AllPathBacked(e.call.search) THEN "pathbacked:" ELSE "mixed:")
                   \o (IF x.err # "" THEN "error" ELSE IF ~x.pre THEN "gt-precondition-false"
                       ELSE (IF x.sorted THEN "gt:" ELSE "star:") \o (IF x.res = {} THEN "nothing" ELSE "found"))
  ELSE IF e.call.op = "getlast" THEN "getlast:" \o (IF e.obs.first.type = "" THEN "empty" ELSE "found") \o (IF e.obs.created THEN ":bumped" ELSE "")
  ELSE IF e.call.op = "match" THEN "match:" \o (IF e.call.entry \in FindList(<<e.call.entry>>, e.call.search).res THEN "yes" ELSE "no")
  ELSE IF e.call.op = "sidreads" THEN LET x == ResolveFirst(e.call.segs) IN
        "sidreads:" \o (IF x.type = "" THEN "untyped" ELSE IF ExistsSid(UIdx[FALSE][e.call.univ], x) THEN "exists:" ELSE "missing:") \o x.type
  ELSE IF e.call.op = "getter" THEN "getter:" \o e.call.enc \o ":" \o (IF e.call.attrs = <<>> THEN "all" ELSE "attrs") \o ":" \o
        (IF e.obs.found = <<>> THEN "nothing" ELSE IF Len(e.obs.found) = 1 THEN "one" ELSE "many")
  ELSE e.call.op
Bump(cov, t) == [x \in DOMAIN cov \cup {t} |-> IF x = t THEN (IF t \in DOMAIN cov THEN cov[t] + 1 ELSE 1) ELSE cov[x]]
Failed(e) == SelectSeq(Clauses(e), LAMBDA c : ~c[2])
Init == l = 1 /\ fails = <<>> /\ TLCSet(1, <<>>) /\ TLCSet(2, <<>>)
Next == /\ l <= Len(Tr)
        /\ l' = l + 1
        /\ LET f == Failed(Tr[l]) IN
             fails' = IF f = <<>> \/ Len(fails) >= Cap THEN fails
                      ELSE Append(fails, <<l, [i \in DOMAIN f |-> f[i][1]]>>)
        /\ TLCSet(1, fails')
        /\ TLCSet(2, Bump(TLCGet(2), Tag(Tr[l])))
Accepted == LET f == TLCGet(1) IN
            /\ \A i \in DOMAIN f : PrintT(<<"FAIL", f[i]>>)
            /\ PrintT(<<"COVER", [t \in DOMAIN TLCGet(2) |-> <<t, TLCGet(2)[t]>>]>>)
            /\ PrintT(<<"CONSUMED", TLCGet("stats").diameter - 1, Len(Tr)>>)
            /\ TLCGet("stats").diameter - 1 = Len(Tr)
            /\ f = <<>>
=============================================================================
