SPECIFICATION Spec
CONSTANTS Family = "findlist"
          MaxEdits = 2
          UnivKinds = {"complete", "leafonly", "noisy"}
          GtFirst = FALSE
          WithGt = TRUE
INVARIANT UnfoldIsDenote
INVARIANT ErrorOnlyWhenDenoted
INVARIANT AllTypedAndMatching
INVARIANT NoDoubleStarLeft
INVARIANT LeafOnlyAfterExpand
INVARIANT FindSubset
INVARIANT GtOnePerGroup
CHECK_DEADLOCK FALSE
