SPECIFICATION Spec
CONSTANTS KeyMode = "full"
          Cap = 2
          MaxCalls = 5
INVARIANT Transparent
INVARIANT KeyOwner
INVARIANT Bounded
CHECK_DEADLOCK FALSE
