SPECIFICATION Spec
CONSTANTS MaxOps = 4
PROPERTY Frozen
INVARIANT EqualIffSameUri
CHECK_DEADLOCK FALSE
