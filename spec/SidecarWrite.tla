---------------------------- MODULE SidecarWrite ----------------------------
(* C17: the write of one sidecar file at the granularity of file-system      *)
(* effects, with a crash possible between any two effects and at every byte  *)
(* boundary of the payload.  `Protocol` selects the effect sequence the       *)
(* writer performs:                                                           *)
(*   "inplace"     read old, open-truncate the sidecar, write, close          *)
(*   "tmp_replace" read old, open-truncate a temporary file, write, close,    *)
(*                 atomically replace the sidecar by it                       *)
(* The first is kept as a documented negative model (TLC finds OpenTrunc,     *)
(* Crash); the recorded effects of the implementation must be a behaviour of  *)
(* the second.                                                                *)
EXTENDS Naturals, Sequences, FiniteSets, TLC
CONSTANTS Protocol, PayloadLen, FirstWrite
VARIABLES disk,     \* file -> content: <<"absent", 0>> | <<"old", 0>> | <<"new", k>> (k bytes of the new payload written)
          pc,       \* "idle" | "read" | "open" | "written" | "closed" | "done" | "dead" | "failed"
          target    \* file the writer currently has open for writing ("" if none)
vars == <<disk, pc, target>>
Files == {"dst", "tmp", "other"}
Absent == <<"absent", 0>>
Old == <<"old", 0>>
Complete(c) == c = Old \/ c = <<"new", PayloadLen>>
Parseable(c) == c = Absent \/ Complete(c)
\* what a reader gets for the Sid: the complete old or new data, or only its 'sid' entry
ReadOf(c) == IF c = Old THEN "old" ELSE IF c = <<"new", PayloadLen>> THEN "new" ELSE "sid-only"
OldValue == IF FirstWrite THEN "sid-only" ELSE "old"

Init == /\ disk = [f \in Files |-> IF f = "other" THEN Old ELSE IF f = "dst" /\ ~FirstWrite THEN Old ELSE Absent]
        /\ pc = "idle" /\ target = ""
WFile == IF Protocol = "inplace" THEN "dst" ELSE "tmp"
ReadOld == pc = "idle" /\ (IF Parseable(disk["dst"]) THEN pc' = "read" ELSE pc' = "failed") /\ UNCHANGED <<disk, target>>
OpenTrunc == pc = "read" /\ disk' = [disk EXCEPT ![WFile] = <<"new", 0>>] /\ target' = WFile /\ pc' = "open"
WriteByte == pc = "open" /\ disk[target][2] < PayloadLen /\ disk' = [disk EXCEPT ![target] = <<"new", @[2] + 1>>] /\ UNCHANGED <<pc, target>>
Close == pc = "open" /\ disk[target][2] = PayloadLen /\ pc' = (IF Protocol = "inplace" THEN "done" ELSE "closed") /\ target' = "" /\ UNCHANGED disk
Replace == pc = "closed" /\ Protocol = "tmp_replace" /\ disk' = [disk EXCEPT !["dst"] = disk["tmp"], !["tmp"] = Absent] /\ pc' = "done" /\ UNCHANGED target
Crash == pc \in {"read", "open", "closed"} /\ pc' = "dead" /\ target' = "" /\ UNCHANGED disk
\* after a crash a NEW process writes again (the next set / update)
Restart == pc = "dead" /\ pc' = "idle" /\ UNCHANGED <<disk, target>>
Next == ReadOld \/ OpenTrunc \/ WriteByte \/ Close \/ Replace \/ Crash \/ Restart
Spec == Init /\ [][Next]_vars

Atomic == pc \in {"dead", "idle", "done", "failed"} => ReadOf(disk["dst"]) \in {OldValue, "new"}
OthersUntouched == disk["other"] = Old
NextWriteSucceeds == pc # "failed"
DoneMeansNew == pc = "done" => ReadOf(disk["dst"]) = "new"
NoLeftoverAfterDone == pc = "done" => disk["tmp"] = Absent
=============================================================================
