INIT Init
NEXT Next
POSTCONDITION Accepted
CHECK_DEADLOCK FALSE
