SPECIFICATION Spec
CONSTANTS Family = "finders"
          MaxEdits = 2
          UnivKinds = {"complete"}
          GtFirst = TRUE
          WithGt = TRUE
CHECK_DEADLOCK FALSE
