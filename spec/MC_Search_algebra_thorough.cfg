SPECIFICATION Spec
CONSTANTS Family = "algebra"
          MaxEdits = 3
          UnivKinds = {"complete"}
          WithGt = FALSE
INVARIANT AlgebraHolds
CHECK_DEADLOCK FALSE
