SPECIFICATION Spec
CONSTANTS Family = "algebra"
          MaxEdits = 2
          UnivKinds = {"complete"}
          GtFirst = FALSE
          WithGt = FALSE
INVARIANT AlgebraHolds
CHECK_DEADLOCK FALSE
