SPECIFICATION Spec
CONSTANTS Family = "algebra"
          MaxEdits = 2
          UnivKinds = {"complete"}
          WithGt = FALSE
INVARIANT AlgebraHolds
CHECK_DEADLOCK FALSE
