------------------------------ MODULE CacheTrace ------------------------------
(* code -> spec for C13: the cache decisions recorded by the (guarded) hook   *)
(* of spil.util.caching, replayed through a model of a CORRECT cache:         *)
(* a hit must be on a key that this very call (same function, same            *)
(* positional values, same keyword names AND values) stored before and that   *)
(* was not evicted; an eviction drops the last inserted key and only when     *)
(* the cache is full.  Top-level results carry the digest of the answer and   *)
(* the digest a fresh process gave for the same call on the same data.        *)
EXTENDS Naturals, Sequences, FiniteSets, TLC, TLCExt, Json, IOUtils, SequencesExt
Tr == ndJsonDeserialize(IOEnv.TRACE_FILE)
VARIABLES cache,     \* function name -> sequence of keys in insertion order
          truth,     \* set of <<normalised call, epoch, digest>> seen at top level in this process
          cap, l, fails
Cap0 == 300
C(name, ok) == <<name, ok>>
Note(cl) == LET f == SelectSeq(cl, LAMBDA c : ~c[2]) IN
            fails' = IF f = <<>> \/ Len(fails) >= Cap0 THEN fails ELSE Append(fails, <<l, [i \in DOMAIN f |-> f[i][1]]>>)
KeyOf(e) == <<e.args, e.kwargs>>            \* the full syntactic call: positional reprs, sorted (name, repr) pairs
CacheOf(f) == IF f \in DOMAIN cache THEN cache[f] ELSE <<>>
Has(f, k) == \E i \in DOMAIN CacheOf(f) : CacheOf(f)[i] = k
SetCache(f, seq) == cache' = [g \in DOMAIN cache \cup {f} |-> IF g = f THEN seq ELSE cache[g]]
TrReset == /\ Tr[l].call.op = "creset"
           /\ cache' = <<>> /\ truth' = {} /\ cap' = Tr[l].call.cap /\ fails' = fails
TrEvent == /\ Tr[l].call.op = "cev"
           /\ LET e == Tr[l].call  k == KeyOf(e) IN
              /\ UNCHANGED <<truth, cap>>
              /\ IF e.what = "hit" THEN cache' = cache /\ Note(<< C("hit_on_a_key_this_call_stored", Has(e.f, k)) >>)
                 ELSE IF e.what = "miss" THEN cache' = cache /\ Note(<<>>)
                 ELSE IF e.what = "evict" THEN
                      /\ SetCache(e.f, IF CacheOf(e.f) = <<>> THEN <<>> ELSE Front(CacheOf(e.f)))
                      /\ Note(<< C("evict_only_when_full", Len(CacheOf(e.f)) >= cap),
                                 \* the dropped key is the last inserted one (its positional part is compared)
                                 C("evicts_last_inserted", CacheOf(e.f) # <<>> /\
                                      LET lastk == CacheOf(e.f)[Len(CacheOf(e.f))] IN
                                      Len(e.evicted) >= Len(lastk[1]) /\ SubSeq(e.evicted, 1, Len(lastk[1])) = lastk[1]) >>)
                 ELSE \* store
                      /\ SetCache(e.f, IF Has(e.f, k) THEN CacheOf(e.f) ELSE Append(CacheOf(e.f), k))
                      /\ Note(<<>>)
\* a top-level call returned: same normalised call, same data epoch => same answer, here and in a fresh process
TrRet == /\ Tr[l].call.op = "cret"
         /\ LET e == Tr[l].call  o == Tr[l].obs IN
            /\ UNCHANGED <<cache, cap>>
            /\ truth' = truth \cup {<<e.norm, e.epoch, o.digest>>}
            /\ Note(<< C("noraise_or_same_raise", o.raised = o.fresh_raised),
                       C("same_as_fresh_process", o.digest = o.fresh_digest),
                       C("same_as_before_in_this_process", \A t \in truth : (t[1] = e.norm /\ t[2] = e.epoch) => t[3] = o.digest) >>)
Bump(cov, t) == [x \in DOMAIN cov \cup {t} |-> IF x = t THEN (IF t \in DOMAIN cov THEN cov[t] + 1 ELSE 1) ELSE cov[x]]
Tag(e) == IF e.call.op = "cev" THEN "cache:" \o e.call.what ELSE IF e.call.op = "cret" THEN "ret:" \o e.call.fn ELSE e.call.op
TrInit == cache = <<>> /\ truth = {} /\ cap = 4096 /\ l = 1 /\ fails = <<>> /\ TLCSet(1, <<>>) /\ TLCSet(2, <<>>)
TrNext == /\ l <= Len(Tr)
          /\ l' = l + 1
          /\ (TrReset \/ TrEvent \/ TrRet)
          /\ TLCSet(1, fails')
          /\ TLCSet(2, Bump(TLCGet(2), Tag(Tr[l])))
Accepted == LET f == TLCGet(1) IN
            /\ \A i \in DOMAIN f : PrintT(<<"FAIL", f[i]>>)
            /\ PrintT(<<"COVER", [t \in DOMAIN TLCGet(2) |-> <<t, TLCGet(2)[t]>>]>>)
            /\ PrintT(<<"CONSUMED", TLCGet("stats").diameter - 1, Len(Tr)>>)
            /\ TLCGet("stats").diameter - 1 = Len(Tr)
            /\ f = <<>>
=============================================================================
