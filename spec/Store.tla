-------------------------------- MODULE Store --------------------------------
(* The data side of spil: a store holds, per path configuration, a file tree  *)
(* (set of lexeme paths) and the attribute data of the sidecar files.  Every *)
(* observation operator follows ITS OWN mechanism (glob over the tree and     *)
(* re-resolution for FindInPaths, string globbing for FindInList, routing and *)
(* constants for FindInAll); that they agree is a theorem checked by TLC      *)
(* (FindersAgree), not a definition.                                          *)
EXTENDS Universe

DefaultCfg == Raw.default_path_config
Cfgs == PathConfigs

(* ---- trees ---- *)
PathOfSegs(c, segs) == ToPath(c, ResolveFirst(segs))
WithDirs(p) == {SubSeq(p, 1, n) : n \in 1..Len(p)}
TreeOf(c, entries) == UNION {IF PathOfSegs(c, e) = <<>> THEN {} ELSE WithDirs(PathOfSegs(c, e)) : e \in entries}
FirstChar(s) == IF s = "" THEN "" ELSE SubSeq(s, 1, 1)
GlobComp(pat, s) == GlobSeg(pat, s) /\ (FirstChar(s) = "." => FirstChar(pat) = ".")
GlobPath(pat, p) == Len(pat) = Len(p) /\ \A s \in DOMAIN pat : (s = 1 /\ pat[1] = p[1]) \/ (s > 1 /\ GlobComp(Concat(pat[s]), Concat(p[s])))
\* index of a tree: path -> the Sid it resolves to (evaluated once per tree)
IndexOf(c, tree) == [p \in tree |-> FromPath(c, p).sid]
\* hidden names (leading dot: sidecars, temporary files) are never entities
Visible(p) == \A s \in DOMAIN p : FirstChar(Concat(p[s])) # "."
EntriesOf(idx) == {DVals(idx[p].fields) : p \in {q \in DOMAIN idx : idx[q].type # "" /\ Visible(q)}}

(* ---- junk: files and folders that conform to no template, or to another type than searched ---- *)
\* derived from the first leaf of the universe's basetype, in its own folders
JunkOf(c, name) ==
  LET p == CHOOSE p \in 1..Len(name) : SubSeq(name, p, p) = ":"
      b == SubSeq(name, 1, p - 1)
      lt == IF b \in BaseTypes /\ LeafTs(b) # {} THEN LeafTs(b) ELSE LeafTs(CHOOSE bb \in BaseTypes : LeafTs(bb) # {})
      i == MinOf(lt)
      leaf == PathOfSegs(c, FirstString(i))
      n == Len(leaf)
      other == PathOfSegs(c, [FirstString(i) EXCEPT ![4] = NthConcrete(Templates[i].ph[4], 2)])
      t == PT(c)[CHOOSE k \in PIdx(c, Templates[i].name) : TRUE]
      \* levels whose folder name is one unrestricted placeholder: a hidden file there (the sidecar of a sibling
      \* entity, a hidden folder) would resolve to a Sid if a finder ever looked at it
      open == {s \in DOMAIN t.segs : Len(t.segs[s]) = 1 /\ t.segs[s][1].kind = "ph" /\ Raw.accept[t.segs[s][1].text].any}
  IN IF leaf = <<>> THEN {}
     ELSE UNION {{Append(SubSeq(leaf, 1, s - 1), <<".">> \o leaf[s] \o <<".", "data", ".", "json">>),
                  Append(SubSeq(leaf, 1, s - 1), <<".", "hidden">>)} : s \in open} \cup
          { Append(SubSeq(leaf, 1, n - 1), <<"junk", ".", "txt">>),                  \* misnamed file in a version folder
            Append(SubSeq(leaf, 1, n - 1), other[Len(other)]),                        \* repeated field disagrees with its folder
            Append(SubSeq(leaf, 1, n - 2), <<"stray">>),                              \* stray folder next to the versions
            Append(SubSeq(leaf, 1, n - 1), <<".", "x", ".", "data", ".", "json">>),   \* a sidecar file
            Append(SubSeq(leaf, 1, n - 1), SubSeq(leaf[n], 1, Len(leaf[n]) - 1) \o <<"zz">>),   \* wrong extension
            Append(SubSeq(leaf, 1, 3), <<"README">>),                                 \* file in a fixed folder
            Append(SubSeq(leaf, 1, n - 3), <<"notatask">>) }                          \* folder with an invalid value

(* ---- a typed search u = [type, segs] ---- *)
Star(segs) == [i \in DOMAIN segs |-> IF segs[i] = ">" THEN "*" ELSE segs[i]]
SidOfU(u) == Typed(IdxOf(u.type), u.segs)

\* FindInPaths for ONE typed search ('>' already read as '*'): glob, re-resolve, keep the searched type and - because
\* the '*' of one field of a file name also matches the separator and the next field - only what fits the search field by field
PathHits(c, idx, u) ==
  LET pat == ToPath(c, SidOfU([type |-> u.type, segs |-> Star(u.segs)]))
  IN IF pat = <<>> THEN {}
     ELSE {DVals(idx[p].fields) : p \in {q \in DOMAIN idx : GlobPath(pat, q) /\ idx[q].type = u.type
                                                            /\ MatchSegs(Star(u.segs), DVals(idx[q].fields))}}
ListHits(L, u) == {L[i] : i \in {j \in DOMAIN L : MatchSegs(u.segs, L[j])}}

\* the common shape of find(): unfold, collect the hits of every typed search, apply '>' per group
FindShape(H(_), search) ==
  LET uf == Unfold(search)
      us == uf.res
      hits == UNION {H(u) : u \in us}
      gts == {u \in us : HasGt(u)}
      P == {GtPos(u) : u \in gts}
  IN IF uf.err # "" THEN [err |-> uf.err, res |-> {}, pre |-> TRUE, sorted |-> FALSE]
     ELSE IF gts = {} THEN [err |-> "", res |-> hits, pre |-> TRUE, sorted |-> FALSE]
     ELSE IF Cardinality(P) # 1 \/ gts # us THEN [err |-> "", res |-> {}, pre |-> FALSE, sorted |-> TRUE]
     ELSE [err |-> "", pre |-> TRUE, sorted |-> TRUE, res |-> LastOf(hits, CHOOSE p \in P : TRUE)]
FindPaths(c, idx, search) == FindShape(LAMBDA u : PathHits(c, idx, u), search)

(* ---- FindInAll: routing by type, constants finders ---- *)
RouteOf(ty) == LET i == {k \in DOMAIN Raw.routing : Raw.routing[k].type = ty}
               IN IF i = {} THEN Raw.routing[CHOOSE k \in DOMAIN Raw.routing : Raw.routing[k].type = "%default"].finder
                  ELSE Raw.routing[CHOOSE k \in i : TRUE].finder
IsConstType(ty) == RouteOf(ty).cls = "FindInConstants"
HasStar(segs) == \E i \in DOMAIN segs : StrContains(segs[i], "*")
SidOfSegsTyped(x) == x      \* a Sid record
\* get_with(key=value) on a Sid record: overlay one field, type by the dictionary
With1(sid, k, v) == MkFromFields(DSet(sid.fields, k, v))
RECURSIVE ConstHits(_, _, _), FinderFindSid(_, _, _)
\* star_search of a FindInConstants f for one typed search (a Sid record x, '>' read as '*')
ConstHits(f, idx, x) ==
  LET root == GetAs(x, f.key) IN
  \* constants exist only below an existing parent (asked from the parent source, when there is one and a parent)
  LET ParentOK == f.parent.cls = "" \/ Parent(root) = root \/ Parent(root).type = ""
                     \/ FinderFindSid(f.parent, idx, Parent(root)) # {} IN
  IF root.type = "" THEN {}
  ELSE IF ~HasStar(DVals(root.fields)) THEN (IF ParentOK THEN {DVals(root.fields)} ELSE {})
  ELSE LET par == Parent(root) IN
       IF HasStar(DVals(par.fields)) /\ par # root THEN
          IF f.parent.cls = "" THEN {}      \* the code raises SpilException here; not reachable with a complete configuration
          ELSE UNION {LET fr == ResolveFirst(e) IN
                        IF DGet(root.fields, f.key) # "*" THEN {Append(e, DGet(root.fields, f.key))}
                        ELSE {DVals(With1(fr, f.key, f.values[v]).fields) : v \in {w \in DOMAIN f.values : With1(fr, f.key, f.values[w]).type # ""}}
                      : e \in FinderFindSid(f.parent, idx, par)}
       ELSE IF ~ParentOK THEN {}
       ELSE {DVals(With1(root, f.key, f.values[v]).fields) : v \in {w \in DOMAIN f.values : With1(root, f.key, f.values[w]).type # ""}}
\* finder.find(sid) for a search Sid record (used for parent sources): unfold its string, route to the finder's own mechanism
FinderFindSid(f, idx, sid) ==
  LET search == [segs |-> [i \in DOMAIN sid.fields |-> <<sid.fields[i][2]>>], query |-> <<>>]
      us == Unfold(search).res
  IN IF f.cls = "FindInPaths" THEN UNION {PathHits(f.config, idx[f.config], u) : u \in us}
     ELSE UNION {ConstHits(f, idx, SidOfU([type |-> u.type, segs |-> Star(u.segs)])) : u \in us}
\* idx here is the function cfg -> index
AllHits(idx, u) ==
  LET f == RouteOf(u.type) IN
  IF f.cls = "FindInPaths" THEN PathHits(f.config, idx[f.config], u)
  ELSE IF f.cls = "FindInConstants" THEN ConstHits(f, idx, SidOfU([type |-> u.type, segs |-> Star(u.segs)]))
  ELSE {}
FindAll(idx, search) == FindShape(LAMBDA u : AllHits(idx, u), search)

\* A search is type-complete when its unfolded forms name EVERY type that accepts their strings.
\* (When a query makes a search fit several types, the code keeps only the first one - the
\*  "ManySearchFirst" row of C04 - and a type-blind finder then answers for the others too.)
TypeComplete(search) ==
  LET us == Unfold(search).res IN
  \A u \in us : \A i \in AllTypesOf(Star(u.segs)) : \E v \in us : v.segs = u.segs /\ v.type = Templates[i].name

(* ---- Sid-level reads (all go through FindInAll, as the code does) ---- *)
SearchOfSid(sid) == [segs |-> [i \in DOMAIN sid.fields |-> <<sid.fields[i][2]>>], query |-> <<>>]
SearchOfSegs(segs) == [segs |-> [i \in DOMAIN segs |-> <<segs[i]>>], query |-> <<>>]
ExistsSid(idx, sid) == sid.type # "" /\ FindAll(idx, SearchOfSid(sid)).res # {}
ChildrenOf(idx, sid) ==
  IF sid.type = "" \/ KeyType(sid) = LeafKeyOf(BaseType(sid)) THEN {}
  ELSE FindAll(idx, SearchOfSegs(Append(DVals(sid.fields), "*"))).res
SiblingsOf(idx, sid) ==
  IF sid.type = "" THEN {}
  ELSE FindAll(idx, SearchOfSid(With1(sid, KeyType(sid), "*"))).res
\* get_last(key): the single answer of the '>' search, or the empty Sid
GetLastOf(idx, sid, key) ==
  IF sid.type = "" THEN {}
  ELSE LET q == With1(sid, key, ">") IN IF q.type = "" THEN {} ELSE FindAll(idx, SearchOfSid(q)).res

(* ---- sidecar data ---- *)
\* the sidecar of a path: same folder, '.' + name with the last suffix replaced (Path.with_suffix)
LastDot(s) == LET d == {i \in 2..Len(s) : SubSeq(s, i, i) = "."} IN IF d = {} THEN 0 ELSE MaxOf(d)
StemOf(name) == IF LastDot(name) = 0 THEN name ELSE SubSeq(name, 1, LastDot(name) - 1)
SideKey(p) == <<Front(p), StemOf(Concat(p[Len(p)]))>>
\* seeded attribute data of the store universes (written as sidecar files by the harness):
\* depends on the entry only through what two files sharing a sidecar have in common
SideDataOf(e) == IF Len(e) \in {4, 5, 8, 9} THEN << <<"n", "len" \o ToString(Len(e))>>, <<"k3", e[3]>> >> ELSE <<>>
GetterOf(ty) == LET i == {k \in DOMAIN Raw.getters : Raw.getters[k].type = ty}
                IN IF i = {} THEN "" ELSE Raw.getters[CHOOSE k \in i : TRUE].getter

(* ---- the store universes: trees and indexes evaluated once ---- *)
StoreUniverses == {n \in UniverseNames : \E k \in 1..Len(n) : SubSeq(n, k, Len(n)) = ":complete"} \cup {"any:all"}
UTree == [j \in BOOLEAN |-> [n \in StoreUniverses |-> [c \in Cfgs |->
             TreeOf(c, UniverseTable[n]) \cup (IF j THEN UNION {WithDirs(q) : q \in JunkOf(c, n)} ELSE {})]]]
UIdx == [j \in BOOLEAN |-> [n \in StoreUniverses |-> [c \in Cfgs |-> IndexOf(c, UTree[j][n][c])]]]
UList == [n \in StoreUniverses |-> SetToSeq(EntriesOf(UIdx[FALSE][n][DefaultCfg]))]
=============================================================================
