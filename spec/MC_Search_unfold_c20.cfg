SPECIFICATION Spec
CONSTANTS Family = "unfold"
          MaxEdits = 1
          UnivKinds = {"noisy"}
          GtFirst = FALSE
          WithGt = TRUE
INVARIANT UnfoldIsDenote
INVARIANT ErrorOnlyWhenDenoted
INVARIANT AllTypedAndMatching
INVARIANT NoDoubleStarLeft
INVARIANT LeafOnlyAfterExpand
INVARIANT FindSubset
INVARIANT GtOnePerGroup
CHECK_DEADLOCK FALSE
