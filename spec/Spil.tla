------------------------------- MODULE Spil -------------------------------
(***************************************************************************)
(* The functional core of spil as an explicit specification: the           *)
(* configuration as data (read from conf.json, which the extractor writes  *)
(* from the RAW configuration modules of the working tree), template        *)
(* extrapolation and pattern replacement, typing of strings, dictionaries  *)
(* and queries, navigation, the search unfolding pipeline, list search and *)
(* the '>' operator, and the Sid <-> path mapping.                         *)
(*                                                                         *)
(* Everything is derived inside the specification from the raw data; the  *)
(* only imported judgement is Accept (regex acceptance of ONE segment by   *)
(* ONE placeholder pattern over a finite vocabulary).                      *)
(*                                                                         *)
(* Conventions: a dictionary is a sequence of <<key, value>> pairs with    *)
(* distinct keys (order matters, as in Python); a Sid value is a record    *)
(* [type, fields, string]; "" is the empty type; <<>> stands for None      *)
(* where a path is expected.                                               *)
(***************************************************************************)
EXTENDS Naturals, Sequences, FiniteSets, TLC, TLCExt, Json, IOUtils, SequencesExt, Functions

Raw == JsonDeserialize(IOEnv.SPIL_CONF_JSON)
Sep == Raw.sep

----------------------------------------------------------------------------
(* generic helpers *)
MinOf(S) == CHOOSE x \in S : \A y \in S : x <= y
MaxOf(S) == CHOOSE x \in S : \A y \in S : x >= y
StrContains(s, sub) == \E i \in 1..(Len(s) - Len(sub) + 1) : SubSeq(s, i, i + Len(sub) - 1) = sub
StrStarts(s, pre) == Len(s) >= Len(pre) /\ SubSeq(s, 1, Len(pre)) = pre
RECURSIVE JoinStr(_, _)
JoinStr(seq, sep) == IF seq = <<>> THEN ""
                     ELSE IF Len(seq) = 1 THEN seq[1]
                     ELSE seq[1] \o sep \o JoinStr(Tail(seq), sep)
RECURSIVE SetProd(_)       \* product of a sequence of sets, built recursively (never filter a function space)
SetProd(ss) == IF ss = <<>> THEN {<<>>} ELSE {Append(p, x) : p \in SetProd(Front(ss)), x \in Last(ss)}
FlattenSeqs(ss) == FoldLeft(LAMBDA a, b : a \o b, <<>>, ss)
SeqOfSet(S) == SetToSeq(S)

(* dictionaries *)
DKeys(d) == {d[i][1] : i \in DOMAIN d}
DKeySeq(d) == [i \in DOMAIN d |-> d[i][1]]
DVals(d) == [i \in DOMAIN d |-> d[i][2]]
DHas(d, k) == \E i \in DOMAIN d : d[i][1] = k
DGet(d, k) == LET i == CHOOSE i \in DOMAIN d : d[i][1] = k IN d[i][2]
DGetOr(d, k, dflt) == IF DHas(d, k) THEN DGet(d, k) ELSE dflt
DSet(d, k, v) == IF DHas(d, k) THEN [i \in DOMAIN d |-> IF d[i][1] = k THEN <<k, v>> ELSE d[i]]
                 ELSE Append(d, <<k, v>>)
DDel(d, k) == SelectSeq(d, LAMBDA p : p[1] # k)
DistinctKeys(d) == \A i, j \in DOMAIN d : d[i][1] = d[j][1] => i = j

----------------------------------------------------------------------------
(* Conf + Extrapolate: the template list is derived here, from raw data.   *)
(* This mirrors conf.util.extrapolate_templates step by step, except that  *)
(* generated names are STRUCTURED (basetype + Sep + key) as the property   *)
(* states, not produced by str.replace.                                    *)
\* "{type:a}" -> "type": looked up in the extracted table, computed for placeholders outside it
KeyOfPh(ph) == LET body == SubSeq(ph, 2, Len(ph) - 1)
                   c == {i \in 1..Len(body) : SubSeq(body, i, i) = ":"}
               IN IF c = {} THEN body ELSE SubSeq(body, 1, MinOf(c) - 1)
PhKey(ph) == IF ph \in DOMAIN Raw.phkey THEN Raw.phkey[ph] ELSE KeyOfPh(ph)
Names(seq) == {seq[i].name : i \in DOMAIN seq}
Tpls(seq)  == {seq[i].ph : i \in DOMAIN seq}

RECURSIVE WalkUp(_, _, _, _)
WalkUp(rawT, acc, t, n) ==
  IF n = 0 THEN acc
  ELSE LET pre  == SubSeq(t.ph, 1, n)
           nm   == t.base \o Sep \o PhKey(pre[n])
           skip == pre \in (Tpls(rawT) \cup Tpls(acc)) \/ nm \in (Names(rawT) \cup Names(acc))
       IN WalkUp(rawT, IF skip THEN acc ELSE Append(acc, [name |-> nm, base |-> t.base, ph |-> pre]), t, n - 1)

RECURSIVE ExtrapolateFrom(_, _, _, _)
ExtrapolateFrom(rawT, toX, acc, i) ==
  IF i > Len(rawT) THEN acc
  ELSE LET t == rawT[i]
           a1 == Append(acc, t)
           a2 == IF t.name \in toX THEN WalkUp(rawT, a1, t, Len(t.ph) - 1) ELSE a1
       IN ExtrapolateFrom(rawT, toX, a2, i + 1)
Extrapolate(rawT, toX) == ExtrapolateFrom(rawT, toX, <<>>, 1)

ReplPh(ph, pairs) == FoldLeft(LAMBDA cur, pr : IF cur = pr[1] THEN pr[2] ELSE cur, ph, pairs)
ReplName(name, ph, kps) == FoldLeft(LAMBDA cur, e : IF StrContains(name, e.sel) THEN ReplPh(cur, e.pairs) ELSE cur, ph, kps)
PatternReplace(tpls, kps) ==
  [i \in DOMAIN tpls |-> [tpls[i] EXCEPT !.ph = [k \in DOMAIN tpls[i].ph |-> ReplName(tpls[i].name, tpls[i].ph[k], kps)]]]

Extrapolated == Extrapolate(Raw.templates, ToSet(Raw.to_extrapolate))
Templates == PatternReplace(Extrapolated, Raw.key_patterns)
TIdx == DOMAIN Templates
TypeNames == {Templates[i].name : i \in TIdx}
IdxOf(name) == CHOOSE i \in TIdx : Templates[i].name = name
TKeySeq(i) == [j \in DOMAIN Templates[i].ph |-> PhKey(Templates[i].ph[j])]
TKeys(i) == {PhKey(Templates[i].ph[j]) : j \in DOMAIN Templates[i].ph}
LastKey(i) == PhKey(Templates[i].ph[Len(Templates[i].ph)])
BaseOfType(ty) == Templates[IdxOf(ty)].base
BaseOfName(name) == LET p == {i \in 1..(Len(name) - Len(Sep) + 1) : SubSeq(name, i, i + Len(Sep) - 1) = Sep}
                    IN IF p = {} THEN name ELSE SubSeq(name, 1, MinOf(p) - 1)
LeafKeyOf(base) == LET idx == {i \in DOMAIN Raw.leaf : Raw.leaf[i].base = base}
                   IN IF idx = {} THEN "" ELSE Raw.leaf[CHOOSE i \in idx : TRUE].key
KeyOrderOf(base) == LET idx == {i \in DOMAIN Raw.key_types : Raw.key_types[i].base = base}
                    IN IF idx = {} THEN <<>> ELSE Raw.key_types[CHOOSE i \in idx : TRUE].keys
NarrowPairs(base) == LET idx == {i \in DOMAIN Raw.narrow : Raw.narrow[i].base = base}
                     IN IF idx = {} THEN <<>> ELSE Raw.narrow[CHOOSE i \in idx : TRUE].pairs
AliasOf(tok) == LET idx == {i \in DOMAIN Raw.alias : Raw.alias[i].name = tok}
                IN IF idx = {} THEN {tok} ELSE ToSet(Raw.alias[CHOOSE i \in idx : TRUE].members)
IsAlias(tok) == \E i \in DOMAIN Raw.alias : Raw.alias[i].name = tok

(* acceptance of ONE segment by ONE placeholder: the extracted relation *)
Accepts(ph, tok) == Raw.accept[ph].any \/ \E i \in DOMAIN Raw.accept[ph].toks : Raw.accept[ph].toks[i] = tok

----------------------------------------------------------------------------
(* SidCore: typing *)
Untyped(str) == [type |-> "", fields |-> <<>>, string |-> str]
EmptySid == Untyped("")
Matches(i, segs) == Len(Templates[i].ph) = Len(segs) /\ \A j \in DOMAIN segs : Accepts(Templates[i].ph[j], segs[j])
Fields(i, segs) == [j \in DOMAIN segs |-> <<PhKey(Templates[i].ph[j]), segs[j]>>]
AllTypesOf(segs) == IF segs = <<>> \/ segs = <<"">> THEN {} ELSE {i \in TIdx : Matches(i, segs)}
Typed(i, segs) == [type |-> Templates[i].name, fields |-> Fields(i, segs), string |-> JoinStr(segs, "/")]
ResolveFirst(segs) ==
  LET idx == AllTypesOf(segs)
  IN IF idx = {} THEN Untyped(JoinStr(segs, "/")) ELSE Typed(MinOf(idx), segs)
ResolveOne(segs, ty) ==
  LET idx == {i \in AllTypesOf(segs) : Templates[i].name = ty}
  IN IF idx = {} THEN Untyped(JoinStr(segs, "/")) ELSE Typed(CHOOSE i \in idx : TRUE, segs)

(* dictionaries -> types / strings (resolva format_all / format_one with reverse check) *)
DictFits(i, d) == /\ TKeys(i) = DKeys(d)
                  /\ \A j \in DOMAIN Templates[i].ph : Accepts(Templates[i].ph[j], DGet(d, PhKey(Templates[i].ph[j])))
DictTypesIdx(d) == IF d = <<>> THEN {} ELSE {i \in TIdx : DictFits(i, d)}
FormatSegs(i, d) == [j \in DOMAIN Templates[i].ph |-> DGet(d, PhKey(Templates[i].ph[j]))]
\* Sid(fields=d): first dictionary type, canonical string, fields re-read in template order
MkFromFields(d) ==
  LET nt == DictTypesIdx(d)
  IN IF nt = {} THEN EmptySid ELSE Typed(MinOf(nt), FormatSegs(MinOf(nt), d))

(* query strings: pairs = sequence of <<key, value>> as written (before parsing) *)
\* parse_qsl + dict(): blank values dropped, last duplicate wins but keeps FIRST position
QueryPairs(raw) ==
  LET nb == SelectSeq(raw, LAMBDA p : p[2] # "" /\ p[1] # "")
  IN FoldLeft(LAMBDA acc, p : DSet(acc, p[1], p[2]), <<>>, nb)
IsOpt(v) == Len(v) >= 1 /\ SubSeq(v, 1, 1) = "~"
RECURSIVE StripAll(_, _)   \* str.replace(prefix, "") removes EVERY occurrence
StripAll(v, ch) == IF v = "" THEN "" ELSE (IF SubSeq(v, 1, 1) = ch THEN "" ELSE SubSeq(v, 1, 1)) \o StripAll(SubSeq(v, 2, Len(v)), ch)
Update(d, pairs) == FoldLeft(LAMBDA cur, p :
                        IF IsOpt(p[2]) THEN (IF DHas(cur, p[1]) THEN DSet(cur, p[1], StripAll(p[2], "~")) ELSE cur)
                        ELSE DSet(cur, p[1], p[2]), d, pairs)
HasSymbolTok(tok) == \E i \in DOMAIN Raw.symbols : StrContains(tok, Raw.symbols[i])
QueryText(raw) == JoinStr([i \in DOMAIN raw |-> raw[i][1] \o "=" \o raw[i][2]], "&")

\* The five-way decision table of query application.  `branch` names the row taken.
\*   sid : the Sid the query is applied to ([type, fields, string]); rawq : pairs as written
ApplyQueryB(sid, rawq) ==
  LET pairs == QueryPairs(rawq)
      new == Update(sid.fields, pairs)
      nt  == DictTypesIdx(new)
      qt  == QueryText(rawq)
      keep(b) == [type |-> sid.type, fields |-> sid.fields, string |-> sid.string \o "?" \o qt, branch |-> b, q |-> rawq]
      app(i, b) == [type |-> Templates[i].name, fields |-> Fields(i, FormatSegs(i, new)),
                    string |-> JoinStr(FormatSegs(i, new), "/"), branch |-> b, q |-> <<>>]
      searchy == HasSymbolTok(sid.string \o "?" \o qt)
  IN IF rawq = <<>> THEN [type |-> sid.type, fields |-> sid.fields, string |-> sid.string, branch |-> "NoQuery", q |-> <<>>]
     ELSE IF sid.type = "" /\ sid.string # "" THEN keep("UntypedString")   \* only typed Sids and the empty string take a query
     ELSE IF nt = {}                 THEN keep("NoType")
     ELSE IF Cardinality(nt) = 1     THEN app(MinOf(nt), "OneType")
     ELSE IF sid.type # "" /\ IdxOf(sid.type) \in nt THEN app(IdxOf(sid.type), "ManyKeepsOld")
     ELSE IF searchy                 THEN app(MinOf(nt), "ManySearchFirst")
     ELSE keep("ManyRefused")
StripBranch(r) == [type |-> r.type, fields |-> r.fields, string |-> r.string]
ApplyQuery(sid, rawq) == StripBranch(ApplyQueryB(sid, rawq))

(* Sid(string): call = [uri : Seq(type prefix parts), segs : Seq(segment), query : raw pairs] *)
\* more than one ':' : the type is the part before the FIRST ':', the rest stays in the string
EffSegs(call) == IF Len(call.uri) <= 1 THEN call.segs
                 ELSE LET pre == JoinStr(Tail(call.uri), ":")
                      IN IF call.segs = <<>> THEN <<pre \o ":">>
                         ELSE <<pre \o ":" \o call.segs[1]>> \o Tail(call.segs)
ForcedType(call) == IF call.uri = <<>> THEN "" ELSE call.uri[1]
BaseOf(call) == LET segs == EffSegs(call) IN
                IF ForcedType(call) = "" THEN ResolveFirst(segs) ELSE ResolveOne(segs, ForcedType(call))
MkFromString(call) == IF call.uri = <<>> /\ call.segs = <<>> /\ call.query = <<>> THEN EmptySid
                      ELSE ApplyQuery(BaseOf(call), call.query)
MkFromQuery(rawq) == ApplyQuery(EmptySid, rawq)

Uri(sid) == IF sid.type = "" THEN sid.string ELSE sid.type \o ":" \o sid.string
AsQuery(sid) == sid.fields     \* query pairs in field order
SidEq(a, b) == Uri(a) = Uri(b)
SegsOf(sid) == DVals(sid.fields)

(* navigation *)
GetAs(sid, k) ==
  IF sid.fields = <<>> \/ ~DHas(sid.fields, k) THEN EmptySid
  ELSE LET n == CHOOSE n \in DOMAIN sid.fields : sid.fields[n][1] = k
       IN MkFromFields(SubSeq(sid.fields, 1, n))
Parent(sid) ==
  IF sid.fields = <<>> THEN EmptySid
  ELSE IF Len(sid.fields) = 1 THEN sid
  ELSE GetAs(sid, sid.fields[Len(sid.fields) - 1][1])
\* sid / value : Sid(str(sid) + "/" + value), natural typing of the extended string
Div(sid, v) == IF sid.string = "" THEN ResolveFirst(<<"", v>>)
               ELSE IF sid.type # "" THEN ResolveFirst(Append(SegsOf(sid), v))
               ELSE Untyped(sid.string \o "/" \o v)
KeyType(sid) == IF sid.fields = <<>> THEN "" ELSE sid.fields[Len(sid.fields)][1]
BaseType(sid) == IF sid.type = "" THEN "" ELSE BaseOfName(sid.type)

(* get_with(keywords): kw = sequence of <<key, value>>, value "%None" stands for None *)
None == "%None"
GetWithKw(sid, kw) ==
  LET removed == FoldLeft(LAMBDA d, p : IF p[2] = None THEN DDel(d, p[1]) ELSE d, sid.fields, kw)
      overlay == FoldLeft(LAMBDA d, p : IF p[2] = None THEN d ELSE DSet(d, p[1], p[2]), removed, kw)
      r == MkFromFields(overlay)
  IN [res |-> r, overlay |-> overlay]

----------------------------------------------------------------------------
(* Search: the unfold pipeline, staged as in read/tools.py:                *)
(*   extensions (alias) -> or_op (comma distribution) -> expand (double star, *)
(*   or simple typing) -> typed narrowing -> prune.                        *)
(* search = [segs : Seq(Seq(token)), query : Seq(<<key, Seq(token)>>)]     *)
AliasSet(alts) == UNION {AliasOf(alts[i]) : i \in DOMAIN alts}
\* the alias rule for filters applies to the configured leaf keys (the demo configuration's "ext")
LeafQueryKeys == {Raw.leaf[i].key : i \in DOMAIN Raw.leaf}
IsLeafQueryKey(k) == k \in LeafQueryKeys
Flat(search) ==
  LET n == Len(search.segs)
      segsets == [i \in 1..n |-> IF i = n THEN AliasSet(search.segs[i]) ELSE ToSet(search.segs[i])]
      qsets == [i \in DOMAIN search.query |->
                   {<<search.query[i][1], v>> : v \in (IF IsLeafQueryKey(search.query[i][1])
                                                        THEN AliasSet(search.query[i][2]) ELSE ToSet(search.query[i][2]))}]
  IN {[segs |-> s, pairs |-> q] : s \in SetProd(segsets), q \in SetProd(qsets)}

MkTyped(i, segs, pairs) == ApplyQueryB(Typed(i, segs), pairs)
StarPos(segs) == {i \in DOMAIN segs : segs[i] = "**"}
Fill(segs, p, n) == SubSeq(segs, 1, p - 1) \o [k \in 1..n |-> "*"] \o SubSeq(segs, p + 1, Len(segs))
FirstStar(segs) == {i \in DOMAIN segs : i > 1 /\ Len(segs[i]) >= 1 /\ SubSeq(segs[i], 1, 1) = "*"}
\* one flattened search -> [err, res : set of typed results (with unapplied query possibly left)]
ExpandOne(f) ==
  LET inner == {p \in StarPos(f.segs) : p > 1}        \* only "/**" counts as expandable
  IN IF inner = {} THEN
        LET rootEnd == IF FirstStar(f.segs) = {} THEN Len(f.segs) ELSE MinOf(FirstStar(f.segs)) - 1
            rt == ResolveFirst(SubSeq(f.segs, 1, rootEnd))
            ts == AllTypesOf(f.segs)
        \* an untypable string denotes nothing.  (The code falls back to Sid(whole string), whose
        \*  query is then applied to EMPTY fields, so 'junk?project=hamlet' unfolds to the Sid
        \*  'hamlet': finding F19.)
        IN IF rt.type = "" \/ ts = {} THEN [err |-> "", res |-> {}, untyped |-> {f.segs}]
           ELSE [err |-> "", res |-> {MkTyped(i, f.segs, f.pairs) : i \in ts}, untyped |-> {}]
     ELSE IF Cardinality(inner) > 1 THEN [err |-> "spil", res |-> {}, untyped |-> {}]
     ELSE LET p == CHOOSE p \in inner : TRUE
              rt == ResolveFirst(SubSeq(f.segs, 1, p - 1))
          IN IF rt.type = "" THEN [err |-> "spil", res |-> {}, untyped |-> {}]
             ELSE LET lk == LeafKeyOf(BaseOfName(rt.type))
                      leafT == {i \in TIdx : LastKey(i) = lk}
                      cur == Len(f.segs) - 1
                      need(i) == IF Len(Templates[i].ph) - cur < 0 THEN 0 ELSE Len(Templates[i].ph) - cur
                      tests == {Fill(f.segs, p, need(i)) : i \in leafT}
                  IN [err |-> "", untyped |-> {}, res |-> UNION {{MkTyped(i, t, f.pairs) : i \in {j \in AllTypesOf(t) : LastKey(j) = lk}} : t \in tests}]
\* A search whose query could not be applied is left alone (it is pruned afterwards): narrowing
\* must not re-apply the user's query, or its optional value would override the user's filter
\* (finding F18: 'hamlet/**?type=a' used to return the shot searches as well).
NarrowOne(s) ==
  IF s.type = "" \/ s.q # <<>> THEN s
  ELSE LET np == NarrowPairs(BaseOfName(s.type))
       IN IF np = <<>> THEN s ELSE ApplyQueryB(StripBranch(s), np)
\* the typed searches a search expression denotes: set of [type, segs]
Unfold(search) ==
  LET ex == {ExpandOne(f) : f \in Flat(search)}
  IN IF \E e \in ex : e.err # "" THEN [err |-> "spil", res |-> {}]
     ELSE LET nar == {NarrowOne(s) : s \in UNION {e.res : e \in ex}}
              ok == {x \in nar : x.type # "" /\ x.q = <<>>}
          IN [err |-> "", res |-> {[type |-> x.type, segs |-> DVals(x.fields)] : x \in ok}]

(* The two flags of unfold_search (not part of C07's statement, part of the call alphabet of C13): *)
\* do_extrapolate: the extrapolate unfolder runs BEFORE the pruning, on the STRING of every unfolded form (typed or
\* not, query applied or not): the string itself and each of its '/'-prefixes are turned into Sids again - so every
\* result is typed naturally from its string (a forced type is lost, a still unapplied query is applied again to the
\* natural type) - and then untyped and unapplied ones are pruned
UnfoldExtrapolated(search) ==
  LET ex == {ExpandOne(f) : f \in Flat(search)} IN
  IF \E e \in ex : e.err # "" THEN [err |-> "spil", res |-> {}]
  ELSE LET nar == {NarrowOne(x) : x \in UNION {e.res : e \in ex}}
           again(x) == IF x.q = <<>> THEN ApplyQueryB(ResolveFirst(DVals(x.fields)), <<>>)
                       ELSE ApplyQueryB(ResolveFirst(DVals(x.fields)), x.q)
           strs == {DVals(x.fields) : x \in nar} \cup UNION {e.untyped : e \in ex}
           pref == UNION {{SubSeq(q, 1, n) : n \in 1..(Len(q) - 1)} : q \in strs}
           all == {again(x) : x \in nar} \cup {ApplyQueryB(ResolveFirst(p), <<>>) : p \in pref}
       IN [err |-> "", res |-> {[type |-> y.type, segs |-> DVals(y.fields)] : y \in {z \in all : z.type # "" /\ z.q = <<>>}}]
\* do_uniquify: one typed search per string - the first in the result order (string, then uri, i.e. type name)
RECURSIVE StrLessAscii(_, _)
StrLessAscii(a, b) == IF a = "" THEN b # "" ELSE IF b = "" THEN FALSE
                      ELSE LET ca == Raw.charcode[SubSeq(a, 1, 1)]  cb == Raw.charcode[SubSeq(b, 1, 1)]
                           IN IF ca # cb THEN ca < cb ELSE StrLessAscii(SubSeq(a, 2, Len(a)), SubSeq(b, 2, Len(b)))
UnfoldUniquified(search) ==
  LET u == Unfold(search) IN
  IF u.err # "" THEN u
  ELSE [err |-> "", res |-> {x \in u.res : \A y \in u.res : (y.segs = x.segs /\ y.type # x.type) => StrLessAscii(x.type, y.type)}]

(* Declarative denotation of a search, written from the property text (C07): *)
(* alternatives distributed, aliases replaced, '**' = any number of '*'      *)
(* completing to a leaf type, every accepting type, narrowed, query applied. *)
StarFills(segs) ==
  LET inner == {p \in StarPos(segs) : p > 1}
  IN IF inner = {} THEN {[segs |-> segs, leafonly |-> FALSE]}
     ELSE LET p == CHOOSE p \in inner : TRUE
          IN {[segs |-> Fill(segs, p, n), leafonly |-> TRUE] : n \in 0..(MaxOf({Len(Templates[i].ph) : i \in TIdx}) + 1)}
Denote(search) ==
  LET n == Len(search.segs)
      alts == {[segs |-> s, pairs |-> q] :
                  s \in SetProd([i \in 1..n |-> IF i = n THEN AliasSet(search.segs[i]) ELSE ToSet(search.segs[i])]),
                  q \in SetProd([i \in DOMAIN search.query |->
                        {<<search.query[i][1], v>> : v \in (IF IsLeafQueryKey(search.query[i][1])
                                THEN AliasSet(search.query[i][2]) ELSE ToSet(search.query[i][2]))}])}
      rootTyped(a) == LET sp == {p \in StarPos(a.segs) : p > 1}
                          fs == FirstStar(a.segs)
                          e == IF sp # {} THEN MinOf(sp) - 1 ELSE IF fs = {} THEN Len(a.segs) ELSE MinOf(fs) - 1
                      IN ResolveFirst(SubSeq(a.segs, 1, e)).type # ""
      leafkey(a) == LET sp == {p \in StarPos(a.segs) : p > 1}
                    IN LeafKeyOf(BaseOfName(ResolveFirst(SubSeq(a.segs, 1, MinOf(sp) - 1)).type))
      cands(a) == UNION {{[i |-> i, segs |-> f.segs] : i \in {j \in AllTypesOf(f.segs) : ~f.leafonly \/ LastKey(j) = leafkey(a)}}
                            : f \in StarFills(a.segs)}
      typedOf(a) == {LET base == Typed(c.i, c.segs)
                         q1 == ApplyQuery(base, a.pairs)
                         np == NarrowPairs(BaseOfName(q1.type))
                     IN IF StrContains(q1.string, "?") \/ np = <<>> THEN q1 ELSE ApplyQuery(q1, np) : c \in cands(a)}
  IN {[type |-> x.type, segs |-> DVals(x.fields)] :
         x \in {y \in UNION {typedOf(a) : a \in {b \in alts : rootTyped(b)}} : y.type # "" /\ ~StrContains(y.string, "?")}}

----------------------------------------------------------------------------
(* List search (C08) and the '>' operator (C09) *)
Code(ch) == Raw.charcode[ch]
RECURSIVE StrLess(_, _)
StrLess(a, b) == IF a = "" THEN b # "" ELSE IF b = "" THEN FALSE
                 ELSE LET ca == Code(SubSeq(a, 1, 1))  cb == Code(SubSeq(b, 1, 1))
                      IN IF ca # cb THEN ca < cb ELSE StrLess(SubSeq(a, 2, Len(a)), SubSeq(b, 2, Len(b)))
RECURSIVE SegsLess(_, _)
SegsLess(x, y) == IF x = <<>> THEN y # <<>> ELSE IF y = <<>> THEN FALSE
                  ELSE IF Head(x) # Head(y) THEN StrLess(Head(x), Head(y)) ELSE SegsLess(Tail(x), Tail(y))
\* glob of one segment: '*' matches any run of characters, everything else itself
RECURSIVE GlobSeg(_, _)
GlobSeg(p, s) == IF p = "" THEN s = ""
                 ELSE IF SubSeq(p, 1, 1) = "*"
                      THEN \E k \in 0..Len(s) : GlobSeg(SubSeq(p, 2, Len(p)), SubSeq(s, k + 1, Len(s)))
                      ELSE s # "" /\ SubSeq(s, 1, 1) = SubSeq(p, 1, 1) /\ GlobSeg(SubSeq(p, 2, Len(p)), SubSeq(s, 2, Len(s)))
SegMatch(p, s) == p = "*" \/ p = ">" \/ p = s \/ (StrContains(p, "*") /\ GlobSeg(p, s))
MatchSegs(pat, e) == Len(pat) = Len(e) /\ \A i \in DOMAIN pat : SegMatch(pat[i], e[i])
HasGt(u) == \E i \in DOMAIN u.segs : u.segs[i] = ">"
GtPos(u) == MinOf({i \in DOMAIN u.segs : u.segs[i] = ">"})
IsSearchSegs(segs) == \E i \in DOMAIN segs : HasSymbolTok(segs[i])
\* greatest entry per group: group = segments before position p, order = segment by segment
LastOf(hits, p) == {e \in hits : \A o \in hits : SubSeq(o, 1, p - 1) = SubSeq(e, 1, p - 1)
                                   => ~SegsLess(SubSeq(e, p, Len(e)), SubSeq(o, p, Len(o)))}
\* L : sequence of entries (each a sequence of segments).  pre = C09's precondition holds
FindList(L, search) ==
  LET uf == Unfold(search)
      us == uf.res
      hits == {L[i] : i \in {j \in DOMAIN L : \E u \in us : MatchSegs(u.segs, L[j])}}
      gts == {u \in us : HasGt(u)}
      P == {GtPos(u) : u \in gts}
  IN IF uf.err # "" THEN [err |-> uf.err, res |-> {}, pre |-> TRUE, sorted |-> FALSE]
     ELSE IF gts = {} THEN [err |-> "", res |-> hits, pre |-> TRUE, sorted |-> FALSE]
     ELSE IF Cardinality(P) # 1 \/ gts # us THEN [err |-> "", res |-> {}, pre |-> FALSE, sorted |-> TRUE]
     ELSE [err |-> "", pre |-> TRUE, sorted |-> TRUE, res |-> LastOf(hits, CHOOSE p \in P : TRUE)]

----------------------------------------------------------------------------
(* SidPath: Sid <-> path.  A path is a sequence of path segments, each a   *)
(* sequence of lexemes (split at the literal separator characters of the  *)
(* path templates); the configured root is the opaque lexeme "ROOT".       *)
PC(c) == Raw.paths[c]
PReplPart(c, name, p) == IF p.kind = "lit" THEN p ELSE [kind |-> "ph", text |-> ReplName(name, p.text, PC(c).key_patterns)]
PTemplatesOf(c) == [i \in DOMAIN PC(c).templates |->
                     [name |-> PC(c).templates[i].name,
                      segs |-> [s \in DOMAIN PC(c).templates[i].segs |->
                                 [k \in DOMAIN PC(c).templates[i].segs[s] |->
                                    PReplPart(c, PC(c).templates[i].name, PC(c).templates[i].segs[s][k])]]]]
PathConfigs == ToSet(Raw.path_configs)
PTAll == [c \in PathConfigs |-> PTemplatesOf(c)]
PT(c) == PTAll[c]
Concat(lex) == FoldLeft(LAMBDA a, b : a \o b, "", lex)
RECURSIVE MP(_, _)     \* all assignments <<key, value>> of one template segment against one lexeme run
MP(parts, lex) ==
  IF parts = <<>> THEN (IF lex = <<>> THEN {<<>>} ELSE {})
  ELSE LET h == Head(parts) IN
    IF h.kind = "lit" THEN (IF lex # <<>> /\ Head(lex) = h.text THEN MP(Tail(parts), Tail(lex)) ELSE {})
    ELSE UNION {LET v == Concat(SubSeq(lex, 1, k)) IN
                  IF Accepts(h.text, v)
                  THEN {<< <<PhKey(h.text), v>> >> \o r : r \in MP(Tail(parts), SubSeq(lex, k + 1, Len(lex)))}
                  ELSE {} : k \in 0..Len(lex)}
Consistent(a) == \A i, j \in DOMAIN a : a[i][1] = a[j][1] => a[i][2] = a[j][2]
\* a path cannot hold an empty or "." component: pathlib collapses 'a//b', 'a/./b' and a trailing '/',
\* so such a path could never be the path of a Sid
Representable(path) == \A s \in DOMAIN path : s = 1 \/ Concat(path[s]) \notin {"", "."}
ParsesOf(t, path) == IF Len(t.segs) # Len(path) THEN {}
                     ELSE {FlattenSeqs(x) : x \in SetProd([s \in DOMAIN path |-> MP(t.segs[s], path[s])])}
MapOf(c, k) == LET idx == {i \in DOMAIN PC(c).mapping : PC(c).mapping[i].key = k}
               IN IF idx = {} THEN <<>> ELSE PC(c).mapping[CHOOSE i \in idx : TRUE].pairs
Fwd(c, k, v) == LET m == MapOf(c, k)  idx == {i \in DOMAIN m : m[i][1] = v}
                IN IF idx = {} THEN v ELSE m[MinOf(idx)][2]
Rev(c, k, v) == LET m == MapOf(c, k)  idx == {i \in DOMAIN m : m[i][2] = v}
                IN IF idx = {} THEN v ELSE m[MinOf(idx)][1]
AKeys(a) == {a[i][1] : i \in DOMAIN a}
AGet(a, k) == a[CHOOSE i \in DOMAIN a : a[i][1] = k][2]
PIdx(c, name) == {i \in DOMAIN PT(c) : PT(c)[i].name = name}
HasPath(c, ty) == ty # "" /\ PIdx(c, ty) # {}
\* property-level FromPath: first template (in order) with a consistent parse, literals match literally
FromPath(c, path) ==
  LET ok == {i \in DOMAIN PT(c) : \E a \in ParsesOf(PT(c)[i], path) : Consistent(a)}
  IN IF ok = {} \/ ~Representable(path) THEN [sid |-> EmptySid, amb |-> FALSE]
     ELSE LET i == MinOf(ok)
              as == {a \in ParsesOf(PT(c)[i], path) : Consistent(a)}
              a == CHOOSE a \in as : TRUE
              order == SelectSeq(KeyOrderOf(BaseOfName(PT(c)[i].name)), LAMBDA k : k \in AKeys(a))
              flds == [n \in DOMAIN order |-> <<order[n], Fwd(c, order[n], AGet(a, order[n]))>>]
              js == {j \in DictTypesIdx(flds) : Templates[j].name = PT(c)[i].name}
          IN IF js = {} THEN [sid |-> EmptySid, amb |-> FALSE]
             ELSE [sid |-> [type |-> PT(c)[i].name, fields |-> flds,
                            string |-> JoinStr(FormatSegs(CHOOSE j \in js : TRUE, flds), "/")],
                   amb |-> Cardinality({[n \in DOMAIN order |-> AGet(x, order[n])] : x \in as}) > 1]
\* ToPath: <<>> stands for None
PTKeys(t) == UNION {{PhKey(t.segs[s][k].text) : k \in {k \in DOMAIN t.segs[s] : t.segs[s][k].kind = "ph"}} : s \in DOMAIN t.segs}
DefaultOf(c, k) == LET idx == {i \in DOMAIN PC(c).defaults : PC(c).defaults[i][1] = k}
                   IN IF idx = {} THEN "" ELSE PC(c).defaults[CHOOSE i \in idx : TRUE][2]
ToPath(c, sid) ==
  IF sid.fields = <<>> \/ ~HasPath(c, sid.type) THEN <<>>
  ELSE LET t == PT(c)[CHOOSE i \in PIdx(c, sid.type) : TRUE]
           d0 == [n \in DOMAIN sid.fields |->
                    <<sid.fields[n][1], IF sid.fields[n][2] = "" /\ DefaultOf(c, sid.fields[n][1]) # ""
                                        THEN DefaultOf(c, sid.fields[n][1]) ELSE sid.fields[n][2]>>]
           d1 == [n \in DOMAIN d0 |-> <<d0[n][1], IF d0[n][2] = "" THEN "" ELSE Rev(c, d0[n][1], d0[n][2])>>]
           missing == SetToSeq({k \in PTKeys(t) : ~DHas(d1, k) /\ DefaultOf(c, k) # ""})
           data == d1 \o [n \in DOMAIN missing |-> <<missing[n], DefaultOf(c, missing[n])>>]
           path == [s \in DOMAIN t.segs |-> [k \in DOMAIN t.segs[s] |->
                      IF t.segs[s][k].kind = "lit" THEN t.segs[s][k].text ELSE AGet(data, PhKey(t.segs[s][k].text))]]
       IN IF AKeys(data) # PTKeys(t) THEN <<>>
          ELSE IF \A s \in DOMAIN t.segs : \A k \in DOMAIN t.segs[s] :
                     t.segs[s][k].kind = "ph" => Accepts(t.segs[s][k].text, AGet(data, PhKey(t.segs[s][k].text)))
               THEN path ELSE <<>>
SameShapeCfg(c1, c2) == PC(c1).templates = PC(c2).templates /\ PC(c1).mapping = PC(c2).mapping /\
                        PC(c1).key_patterns = PC(c2).key_patterns /\ PC(c1).defaults = PC(c2).defaults
SamePath(p, q) == Len(p) = Len(q) /\ \A s \in DOMAIN p : Concat(p[s]) = Concat(q[s])
PathStr(path) == JoinStr([s \in DOMAIN path |-> Concat(path[s])], "/")
=============================================================================
