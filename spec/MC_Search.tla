----------------------------- MODULE MC_Search -----------------------------
(* Families for C07 (unfold), C08 (list search, match), C09 ('>') and C10   *)
(* (algebra).  A state is one search expression (plus the name of the      *)
(* universe it is run against); Init takes the first string of every       *)
(* template, Next applies one more syntactic edit: '*', '>', a comma list, *)
(* an alias, an in-segment glob, a collapsed '**' span, a filter, or a     *)
(* malformation.  TLC checks Unfold = Denote (operational pipeline against *)
(* the declarative meaning) and the result-shape invariants on every state. *)
EXTENDS Store
CONSTANTS Family,       \* "unfold" | "findlist" | "match"
          MaxEdits,
          WithGt,       \* TRUE: the '>' edit is part of the family
          UnivKinds,    \* which kinds of universes the list searches run against
          GtFirst       \* TRUE: the first edit is a '>' (the family of C09 on real finders)
VARIABLES call, edits
vars == <<call, edits>>

Sr == call.search
N == Len(Sr.segs)
TplOf(b) == IF AllTypesOf(b) = {} THEN 0 ELSE MinOf(AllTypesOf(b))
\* the placeholder a segment of the BASE string belongs to (for choosing alternatives)
BasePh(i) == Templates[call.t].ph[i]
AliasNames == {Raw.alias[i].name : i \in DOMAIN Raw.alias}
Concrete1(i) == <<FirstConcrete(BasePh(i))>>

SetSeg(i, alts) == call' = [call EXCEPT !.search.segs[i] = alts]
Untouched(i) == i <= N /\ i <= Len(Templates[call.t].ph) /\ Sr.segs[i] = Concrete1(i) /\ call.span = 0
StarAt == \E i \in 1..N : Untouched(i) /\ SetSeg(i, <<"*">>)
GtAt == WithGt /\ \E i \in 2..N : Untouched(i) /\ SetSeg(i, <<">">>)
CommaAt == \E i \in 2..N : Untouched(i) /\
              \/ SetSeg(i, <<Sr.segs[i][1], NthConcrete(BasePh(i), 2)>>)
              \/ SetSeg(i, <<Sr.segs[i][1], "zz">>)
              \/ SetSeg(i, <<NthConcrete(BasePh(i), 3), "*">>)
\* in-segment stars on unrestricted keys, including stars that have to match the EMPTY run (value*, *value)
GlobAt == \E i \in 2..N : Untouched(i) /\ Raw.accept[BasePh(i)].any /\
             (SetSeg(i, <<"o*">>) \/ SetSeg(i, <<Sr.segs[i][1] \o "*">>) \/ SetSeg(i, <<"*" \o Sr.segs[i][1]>>) \/ SetSeg(i, <<"oph*">>))
AliasLast == Untouched(N) /\ N = Len(Templates[call.t].ph) /\ IsLeafT(call.t) /\ \E a \in AliasNames : SetSeg(N, <<a>>)
\* collapse the span a..b (2 <= a <= b <= N) into one '**'
Collapse == call.span = 0 /\ \E a \in 2..N : \E b \in a..N :
               call' = [call EXCEPT !.search.segs = SubSeq(@, 1, a - 1) \o << <<"**">> >> \o SubSeq(@, b + 1, Len(@)),
                                    !.span = 1]
FilterKeys == {LastKey(call.t), LeafKeyOf(Templates[call.t].base), "version", "state", "foo", "task"}
FilterVals(k) ==
  LET phs == {Templates[i].ph[j] : i \in {call.t}, j \in {jj \in DOMAIN Templates[call.t].ph : PhKey(Templates[call.t].ph[jj]) = k}}
      leafphs == {Templates[i].ph[Len(Templates[i].ph)] : i \in LeafTs(Templates[call.t].base)}
      ph == IF phs # {} THEN CHOOSE p \in phs : TRUE
            ELSE IF k = LeafKeyOf(Templates[call.t].base) /\ leafphs # {} THEN CHOOSE p \in leafphs : TRUE ELSE ""
  IN IF k = "foo" THEN { <<"bar">> }
     ELSE IF ph = "" THEN { <<"v001">>, <<"p">>, <<"*">> }
     ELSE { <<FirstConcrete(ph)>>, <<NthConcrete(ph, 2)>>, <<"~" \o FirstConcrete(ph)>>, <<FirstConcrete(ph), NthConcrete(ph, 2)>>, <<"*">> }
          \cup (IF k = LeafKeyOf(Templates[call.t].base) THEN {<<a>> : a \in AliasNames} ELSE {})
          \cup (IF WithGt THEN { <<">">> } ELSE {})
AddFilter == Len(Sr.query) < 2 /\ \E k \in FilterKeys : (\A i \in DOMAIN Sr.query : Sr.query[i][1] # k) /\
                \E v \in FilterVals(k) : call' = [call EXCEPT !.search.query = Append(@, <<k, v>>)]
Malform == \/ (call.span = 1 /\ N < 9 /\ call' = [call EXCEPT !.search.segs = Append(@, <<"**">>), !.span = 2])
           \/ (call.span = 0 /\ call' = [call EXCEPT !.search.segs[1] = <<"**">>, !.span = 2])
           \/ (call.span < 2 /\ Sr.segs[1] # <<"junk">> /\ SetSeg(1, <<"junk">>))
           \/ (call.span = 0 /\ N > 1 /\ SetSeg(N, <<"">>))
\* a literal open value next to a run of '*' levels: in a file name the glob "*" of one field can swallow the separator
\* and a neighbouring field ("oph" next to '*' against the entity "oph_elia") - the finders must still answer exactly
OverMatch == edits = 0 /\ call.span = 0 /\ \E i \in 3..N : i <= Len(Templates[call.t].ph) /\ Raw.accept[BasePh(i)].any /\
               \E side \in {"before", "after"} :
                  LET S == IF side = "before" THEN {j \in 3..(i - 1) : j >= i - 3} ELSE {j \in (i + 1)..(N - 1) : j <= i + 2} IN
                  S # {} /\ call' = [call EXCEPT !.search.segs = [j \in DOMAIN @ |->
                                        IF j = i THEN <<NthConcrete(BasePh(i), 2)>> ELSE IF j \in S THEN <<"*">> ELSE @[j]]]
Edit == StarAt \/ GtAt \/ CommaAt \/ GlobAt \/ AliasLast \/ Collapse \/ AddFilter \/ Malform \/ OverMatch

Universes(i) == IF Family = "unfold" THEN {""}
                ELSE IF Family = "finders" THEN {IF LeafTs(Templates[i].base) = {} THEN "any:all" ELSE Templates[i].base \o ":complete"}
                ELSE IF Family = "algebra" THEN {IF LeafTs(Templates[i].base) = {} THEN "any:all" ELSE Templates[i].base \o ":complete"}
                ELSE LET b == Templates[i].base
                     IN IF LeafTs(b) = {} THEN {"any:all"}
                        ELSE {b \o ":" \o k : k \in UnivKinds}
Init == /\ edits = 0
        /\ \E i \in TIdx : \E u \in Universes(i) :
              call = [op |-> IF Family = "algebra" THEN "findlist" ELSE Family, t |-> i, span |-> 0, univ |-> u,
                      search |-> [segs |-> [j \in DOMAIN Templates[i].ph |-> <<FirstConcrete(Templates[i].ph[j])>>], query |-> <<>>]]
(* ---- C10: derive, from a search, the searches the algebra relates it to ---- *)
Alg(rule, parts, arg) == call' = [op |-> "algebra", t |-> call.t, span |-> call.span, univ |-> call.univ, search |-> Sr,
                                  rule |-> rule, parts |-> parts, arg |-> arg]
MaxTplLen == MaxOf({Len(Templates[i].ph) : i \in TIdx})
SpanKeys == {TKeySeq(i)[j] : i \in TIdx, j \in 1..MaxTplLen} 
DeriveComma == \E i \in 1..N : Len(Sr.segs[i]) > 1 /\
                 Alg("union", [a \in 1..Len(Sr.segs[i]) |-> [Sr EXCEPT !.segs[i] = <<Sr.segs[i][a]>>]], <<"comma">>)
DeriveCommaQ == \E i \in DOMAIN Sr.query : Len(Sr.query[i][2]) > 1 /\
                 Alg("union", [a \in 1..Len(Sr.query[i][2]) |-> [Sr EXCEPT !.query[i] = <<Sr.query[i][1], <<Sr.query[i][2][a]>> >>]], <<"commaq">>)
DeriveAlias == Len(Sr.segs[N]) = 1 /\ IsAlias(Sr.segs[N][1]) /\
                 LET m == SetToSeq(AliasOf(Sr.segs[N][1])) IN
                 Alg("union", [a \in DOMAIN m |-> [Sr EXCEPT !.segs[N] = <<m[a]>>]], <<"alias">>)
DeriveAliasQ == \E i \in DOMAIN Sr.query : IsLeafQueryKey(Sr.query[i][1]) /\ Len(Sr.query[i][2]) = 1 /\ IsAlias(Sr.query[i][2][1]) /\
                 LET m == SetToSeq(AliasOf(Sr.query[i][2][1])) IN
                 Alg("union", [a \in DOMAIN m |-> [Sr EXCEPT !.query[i] = <<Sr.query[i][1], <<m[a]>> >>]], <<"aliasq">>)
\* (filters that would ADD a level are overlays, not filters: C04 owns them)
DeriveStarStar == call.span = 1 /\ (\A q \in DOMAIN Sr.query : Sr.query[q][1] \in TKeys(call.t)) /\ \E p \in 2..N : Sr.segs[p] = <<"**">> /\
                 Alg("starstar", [n \in 1..(MaxTplLen + 2 - N) |->
                        [Sr EXCEPT !.segs = SubSeq(@, 1, p - 1) \o [k \in 1..(n - 1) |-> <<"*">>] \o SubSeq(@, p + 1, Len(@))]], <<"starstar">>)
\* a filter on a key that the search leaves open ('*' at that level)
DeriveFilter == Sr.query = <<>> /\ call.span = 0 /\ \E i \in 2..N : Sr.segs[i] = <<"*">> /\ i <= Len(Templates[call.t].ph) /\
                 \* "a key that the searched types have": every type the search unfolds to owns the key
                 (\A u \in Unfold(Sr).res : PhKey(BasePh(i)) \in TKeys(IdxOf(u.type))) /\
                 \E v \in {FirstConcrete(BasePh(i)), NthConcrete(BasePh(i), 2)} :
                    Alg("filter", <<Sr, [Sr EXCEPT !.query = << <<PhKey(BasePh(i)), <<v>> >> >>]>>, <<PhKey(BasePh(i)), v>>)
DeriveLiteral == call.span = 0 /\ \E i \in 2..N : Sr.segs[i] = <<"*">> /\ i <= Len(Templates[call.t].ph) /\
                 (\A q \in DOMAIN Sr.query : Sr.query[q][1] # PhKey(BasePh(i)) /\ Sr.query[q][1] \in TKeys(call.t)) /\
                 \E v \in {FirstConcrete(BasePh(i)), NthConcrete(BasePh(i), 2)} :
                    Alg("literal", <<Sr, [Sr EXCEPT !.segs[i] = <<v>>]>>, <<i, v>>)
Derive == Family = "algebra" /\ call.op # "algebra" /\
          (DeriveComma \/ DeriveCommaQ \/ DeriveAlias \/ DeriveAliasQ \/ DeriveStarStar \/ DeriveFilter \/ DeriveLiteral)
Next == \/ call.op # "algebra" /\ edits < MaxEdits /\ (IF GtFirst /\ edits = 0 THEN GtAt ELSE Edit) /\ edits' = edits + 1
        \/ Derive /\ UNCHANGED edits
Spec == Init /\ [][Next]_vars

(* ---------------- invariants on the specification ---------------- *)
AllPathBackedM == LET us == Unfold(Sr).res IN us # {} /\ \A u \in us : ~IsConstType(u.type) /\ \A c \in Cfgs : HasPath(c, u.type)
U == Unfold(Sr)
UnfoldIsDenote == U.err = "" => U.res = Denote(Sr)
ErrorOnlyWhenDenoted ==
   U.err # "" <=> \E f \in Flat(Sr) : LET inner == {p \in StarPos(f.segs) : p > 1} IN
                      \/ Cardinality(inner) > 1
                      \/ (Cardinality(inner) = 1 /\ ResolveFirst(SubSeq(f.segs, 1, (CHOOSE p \in inner : TRUE) - 1)).type = "")
AllTypedAndMatching == \A x \in U.res : x.type \in TypeNames /\ Matches(IdxOf(x.type), x.segs)
NoDoubleStarLeft == \A x \in U.res : \A j \in DOMAIN x.segs : x.segs[j] # "**" /\ ~StrContains(x.segs[j], ",")
LeafOnlyAfterExpand == (U.err = "" /\ \E i \in 2..N : Sr.segs[i] = <<"**">>) =>
                          \A x \in U.res : LastKey(IdxOf(x.type)) = LeafKeyOf(BaseOfName(x.type))
\* list search on the model: result is a sub-collection of L, and '>' picks one per group
L == IF call.univ = "" THEN {} ELSE UniverseTable[call.univ]
FL == FindList(IF call.univ = "" THEN <<>> ELSE UniverseSeq(call.univ), Sr)
FindSubset == Family = "findlist" => FL.res \subseteq L
GtOnePerGroup == (Family = "findlist" /\ FL.sorted /\ FL.pre /\ FL.err = "") =>
   LET p == GtPos(CHOOSE u \in U.res : HasGt(u)) IN
      \A a, b \in FL.res : SubSeq(a, 1, p - 1) = SubSeq(b, 1, p - 1) => a = b
\* C11 on the model: every finder follows its own mechanism; they agree where the property says so,
\* and junk changes nothing
IsF == Family = "finders"
FindersAgree == (IsF /\ AllPathBackedM /\ TypeComplete(Sr)) =>
   LET a == FindAll(UIdx[FALSE][call.univ], Sr)
       l == FindList(UList[call.univ], Sr)
   IN a.pre => /\ a.res = l.res /\ a.err = l.err
               /\ \A c \in Cfgs : FindPaths(c, UIdx[FALSE][call.univ][c], Sr).res = l.res
JunkChangesNothing == IsF =>
   /\ FindAll(UIdx[TRUE][call.univ], Sr) = FindAll(UIdx[FALSE][call.univ], Sr)
   /\ \A c \in Cfgs : FindPaths(c, UIdx[TRUE][call.univ][c], Sr) = FindPaths(c, UIdx[FALSE][call.univ][c], Sr)
   /\ EntriesOf(UIdx[TRUE][call.univ][DefaultCfg]) = EntriesOf(UIdx[FALSE][call.univ][DefaultCfg])
\* C10 on the model: the algebra of the search syntax, for list search over the universe
FLof(sr) == FindList(UniverseSeq(call.univ), sr)
NaturalOf(e) == ResolveFirst(e)
IsLeafEntry(e) == LET x == NaturalOf(e) IN x.type # "" /\ KeyType(x) = LeafKeyOf(BaseOfName(x.type))
\* "restricted to leaf types": keep what a LEAF-typed unfolded form of the part matches
LeafRestricted(sr, res) == {e \in res : \E u \in Unfold(sr).res : LastKey(IdxOf(u.type)) = LeafKeyOf(BaseOfName(u.type)) /\ MatchSegs(u.segs, e)}
AlgebraHolds == call.op = "algebra" =>
   LET whole == FLof(call.search)  parts == [i \in DOMAIN call.parts |-> FLof(call.parts[i])] IN
   IF whole.err # "" \/ \E i \in DOMAIN parts : parts[i].err # "" THEN TRUE
   ELSE IF call.rule = "union" THEN whole.res = UNION {parts[i].res : i \in DOMAIN parts}
   ELSE IF call.rule = "starstar" THEN whole.res = UNION {LeafRestricted(call.parts[i], parts[i].res) : i \in DOMAIN parts}
   ELSE IF call.rule = "filter" THEN parts[2].res = {e \in parts[1].res : DGetOr(NaturalOf(e).fields, call.arg[1], "") = call.arg[2]}
   ELSE parts[2].res = {e \in parts[1].res : e[call.arg[1]] = call.arg[2]}
=============================================================================
