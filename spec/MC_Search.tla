----------------------------- MODULE MC_Search -----------------------------
(* Families for C07 (unfold), C08 (list search, match), C09 ('>') and C10   *)
(* (algebra).  A state is one search expression (plus the name of the      *)
(* universe it is run against); Init takes the first string of every       *)
(* template, Next applies one more syntactic edit: '*', '>', a comma list, *)
(* an alias, an in-segment glob, a collapsed '**' span, a filter, or a     *)
(* malformation.  TLC checks Unfold = Denote (operational pipeline against *)
(* the declarative meaning) and the result-shape invariants on every state. *)
EXTENDS Universe
CONSTANTS Family,       \* "unfold" | "findlist" | "match"
          MaxEdits,
          WithGt        \* TRUE: the '>' edit is part of the family
VARIABLES call, edits
vars == <<call, edits>>

Sr == call.search
N == Len(Sr.segs)
TplOf(b) == IF AllTypesOf(b) = {} THEN 0 ELSE MinOf(AllTypesOf(b))
\* the placeholder a segment of the BASE string belongs to (for choosing alternatives)
BasePh(i) == Templates[call.t].ph[i]
AliasNames == {Raw.alias[i].name : i \in DOMAIN Raw.alias}
Concrete1(i) == <<FirstConcrete(BasePh(i))>>

SetSeg(i, alts) == call' = [call EXCEPT !.search.segs[i] = alts]
Untouched(i) == i <= N /\ i <= Len(Templates[call.t].ph) /\ Sr.segs[i] = Concrete1(i) /\ call.span = 0
StarAt == \E i \in 1..N : Untouched(i) /\ SetSeg(i, <<"*">>)
GtAt == WithGt /\ \E i \in 2..N : Untouched(i) /\ SetSeg(i, <<">">>)
CommaAt == \E i \in 2..N : Untouched(i) /\
              \/ SetSeg(i, <<Sr.segs[i][1], NthConcrete(BasePh(i), 2)>>)
              \/ SetSeg(i, <<Sr.segs[i][1], "zz">>)
              \/ SetSeg(i, <<NthConcrete(BasePh(i), 3), "*">>)
GlobAt == \E i \in 2..N : Untouched(i) /\ Raw.accept[BasePh(i)].any /\ SetSeg(i, <<"o*">>)
AliasLast == Untouched(N) /\ N = Len(Templates[call.t].ph) /\ IsLeafT(call.t) /\ \E a \in AliasNames : SetSeg(N, <<a>>)
\* collapse the span a..b (2 <= a <= b <= N) into one '**'
Collapse == call.span = 0 /\ \E a \in 2..N : \E b \in a..N :
               call' = [call EXCEPT !.search.segs = SubSeq(@, 1, a - 1) \o << <<"**">> >> \o SubSeq(@, b + 1, Len(@)),
                                    !.span = 1]
FilterKeys == {LastKey(call.t), LeafKeyOf(Templates[call.t].base), "version", "state", "foo", "task"}
FilterVals(k) ==
  LET phs == {Templates[i].ph[j] : i \in {call.t}, j \in {jj \in DOMAIN Templates[call.t].ph : PhKey(Templates[call.t].ph[jj]) = k}}
      leafphs == {Templates[i].ph[Len(Templates[i].ph)] : i \in LeafTs(Templates[call.t].base)}
      ph == IF phs # {} THEN CHOOSE p \in phs : TRUE
            ELSE IF k = LeafKeyOf(Templates[call.t].base) /\ leafphs # {} THEN CHOOSE p \in leafphs : TRUE ELSE ""
  IN IF k = "foo" THEN { <<"bar">> }
     ELSE IF ph = "" THEN { <<"v001">>, <<"p">>, <<"*">> }
     ELSE { <<FirstConcrete(ph)>>, <<NthConcrete(ph, 2)>>, <<"~" \o FirstConcrete(ph)>>, <<FirstConcrete(ph), NthConcrete(ph, 2)>>, <<"*">> }
          \cup (IF k = LeafKeyOf(Templates[call.t].base) THEN {<<a>> : a \in AliasNames} ELSE {})
          \cup (IF WithGt THEN { <<">">> } ELSE {})
AddFilter == Len(Sr.query) < 2 /\ \E k \in FilterKeys : (\A i \in DOMAIN Sr.query : Sr.query[i][1] # k) /\
                \E v \in FilterVals(k) : call' = [call EXCEPT !.search.query = Append(@, <<k, v>>)]
Malform == \/ (call.span = 1 /\ N < 9 /\ call' = [call EXCEPT !.search.segs = Append(@, <<"**">>), !.span = 2])
           \/ (call.span = 0 /\ call' = [call EXCEPT !.search.segs[1] = <<"**">>, !.span = 2])
           \/ (call.span < 2 /\ Sr.segs[1] # <<"junk">> /\ SetSeg(1, <<"junk">>))
           \/ (call.span = 0 /\ N > 1 /\ SetSeg(N, <<"">>))
Edit == StarAt \/ GtAt \/ CommaAt \/ GlobAt \/ AliasLast \/ Collapse \/ AddFilter \/ Malform

Universes(i) == IF Family = "unfold" THEN {""}
                ELSE LET b == Templates[i].base
                     IN IF LeafTs(b) = {} THEN {"any:all"}
                        ELSE {b \o ":" \o k : k \in {"complete", "leafonly", "noisy"}}
Init == /\ edits = 0
        /\ \E i \in TIdx : \E u \in Universes(i) :
              call = [op |-> Family, t |-> i, span |-> 0, univ |-> u,
                      search |-> [segs |-> [j \in DOMAIN Templates[i].ph |-> <<FirstConcrete(Templates[i].ph[j])>>], query |-> <<>>]]
Next == edits < MaxEdits /\ Edit /\ edits' = edits + 1
Spec == Init /\ [][Next]_vars

(* ---------------- invariants on the specification ---------------- *)
U == Unfold(Sr)
UnfoldIsDenote == U.err = "" => U.res = Denote(Sr)
ErrorOnlyWhenDenoted ==
   U.err # "" <=> \E f \in Flat(Sr) : LET inner == {p \in StarPos(f.segs) : p > 1} IN
                      \/ Cardinality(inner) > 1
                      \/ (Cardinality(inner) = 1 /\ ResolveFirst(SubSeq(f.segs, 1, (CHOOSE p \in inner : TRUE) - 1)).type = "")
AllTypedAndMatching == \A x \in U.res : x.type \in TypeNames /\ Matches(IdxOf(x.type), x.segs)
NoDoubleStarLeft == \A x \in U.res : \A j \in DOMAIN x.segs : x.segs[j] # "**" /\ ~StrContains(x.segs[j], ",")
LeafOnlyAfterExpand == (U.err = "" /\ \E i \in 2..N : Sr.segs[i] = <<"**">>) =>
                          \A x \in U.res : LastKey(IdxOf(x.type)) = LeafKeyOf(BaseOfName(x.type))
\* list search on the model: result is a sub-collection of L, and '>' picks one per group
L == IF call.univ = "" THEN {} ELSE Universe(call.univ)
FL == FindList(SetToSeq(L), Sr)
FindSubset == Family = "findlist" => FL.res \subseteq L
GtOnePerGroup == (Family = "findlist" /\ FL.sorted /\ FL.pre /\ FL.err = "") =>
   LET p == GtPos(CHOOSE u \in U.res : HasGt(u)) IN
      \A a, b \in FL.res : SubSeq(a, 1, p - 1) = SubSeq(b, 1, p - 1) => a = b
=============================================================================
