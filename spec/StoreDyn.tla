------------------------------ MODULE StoreDyn ------------------------------
(* The write side: a store that changes.  State = the file tree of the       *)
(* default path configuration and the content of its sidecar files; actions *)
(* = the Writer calls (create, update, set) with their failure branches.     *)
(* Reads (exists, find, get_data) are the operators of Store.tla evaluated   *)
(* on the current state, so "created entities exist" and "data reads back"   *)
(* are invariants over all histories.                                        *)
EXTENDS Store
CONSTANTS MaxSteps
VARIABLES tree,      \* set of lexeme paths that exist (local configuration)
          side,      \* sidecar key -> dictionary (sequence of <<attr, value>>)
          hist,      \* the calls made so far (this IS the behaviour that is replayed on the implementation)
          last       \* [ret, raised] of the last call
vars == <<tree, side, hist, last>>
C0 == DefaultCfg

(* ---- the alphabet, derived from the configuration ---- *)
LeafI == MinOf(LeafTs(CHOOSE b \in BaseTypes : LeafTs(b) # {}))
F1 == FirstString(LeafI)
F2 == [F1 EXCEPT ![Len(F1)] = NthConcrete(Templates[LeafI].ph[Len(F1)], 2)]      \* same file, other extension: shares the sidecar
OtherLeaf == CHOOSE i \in LeafTs(Templates[LeafI].base) : i # LeafI
F3 == FirstString(OtherLeaf)                                                      \* a file of another type (other folder)
D1 == SubSeq(F1, 1, Len(F1) - 2)                                                  \* the version folder
D2 == SubSeq(F1, 1, Len(F1) - 3)                                                  \* its parent
D3 == [D1 EXCEPT ![Len(D1)] = NthConcrete(Templates[LeafI].ph[Len(D1)], 2)]      \* a sibling version
NP == SubSeq(F1, 1, Len(F1) - 1)                                                  \* a level without path (state)
Alphabet == {F1, F2, F3, D1, D2, D3, NP}
Keys == {"k1", "k2"}
\* the empty string: a falsy value is still a value that was written.  "~None", "~i1", "~True" stand for the JSON values
\* null, 1 and true (harness/wire.py venc): None is a value that was written, and 1 and true are different values
Vals == {"x", "", "~None", "~i1", "~True"}
DataChoices == { <<>>, << <<"k1", "x">> >>, << <<"k1", "y">>, <<"k2", "x">> >> }

\* evaluated once: the path of every Sid of the alphabet, and what every path of the closed world resolves to
APath == [s \in Alphabet |-> PathOfSegs(C0, s)]
PathOf(s) == IF s \in Alphabet THEN APath[s] ELSE PathOfSegs(C0, s)
World == UNION {IF APath[s] = <<>> THEN {} ELSE WithDirs(APath[s]) : s \in Alphabet}
WorldIdx == IndexOf(C0, World)
EmptyIdx == [c \in Cfgs |-> IndexOf(c, {})]
SideOf(p) == IF SideKey(p) \in DOMAIN side THEN side[SideKey(p)] ELSE <<>>
Merge(old, data) == FoldLeft(LAMBDA d, kv : DSet(d, kv[1], kv[2]), old, data)
Ok == [ret |-> "True", raised |-> ""]
Fail == [ret |-> "", raised |-> "SpilException"]
Log(op, s, data) == hist' = Append(hist, [op |-> op, segs |-> s, data |-> data])
Unchanged == UNCHANGED <<tree, side>>

Create(s, data) ==
  /\ Log("create", s, data)
  /\ LET p == PathOf(s) IN
     IF p = <<>> \/ p \in tree THEN Unchanged /\ last' = Fail
     ELSE /\ tree' = tree \cup WithDirs(p)
          /\ side' = IF data = <<>> THEN side ELSE [k \in DOMAIN side \cup {SideKey(p)} |-> IF k = SideKey(p) THEN Merge(SideOf(p), data) ELSE side[k]]
          /\ last' = Ok
UpdateData(s, data) ==
  /\ Log("update", s, data)
  /\ LET p == PathOf(s) IN
     IF p = <<>> \/ p \notin tree THEN Unchanged /\ last' = Fail
     ELSE /\ tree' = tree
          /\ side' = [k \in DOMAIN side \cup {SideKey(p)} |-> IF k = SideKey(p) THEN Merge(SideOf(p), data) ELSE side[k]]
          /\ last' = Ok
Init == tree = {} /\ side = <<>> /\ hist = <<>> /\ last = Ok
Next == /\ Len(hist) < MaxSteps
        /\ \E s \in Alphabet :
              \/ \E d \in DataChoices : Create(s, d)
              \/ \E d \in DataChoices \ {<<>>} : UpdateData(s, d)
              \/ \E k \in Keys, v \in Vals : UpdateData(s, << <<k, v>> >>)
Spec == Init /\ [][Next]_vars

(* ---- reads on the current state ---- *)
Idx == [c \in Cfgs |-> IF c = C0 THEN [p \in tree |-> IF p \in World THEN WorldIdx[p] ELSE FromPath(c, p).sid] ELSE EmptyIdx[c]]
ExistsS(s) == ExistsSid(Idx, ResolveFirst(s))
DataOf(s) == LET p == PathOf(s) IN IF p = <<>> THEN <<>> ELSE DSet(SideOf(p), "sid", JoinStr(s, "/"))

(* ---- C15 as invariants over all histories ---- *)
CreatedOk(i) == hist[i].op = "create"      \* (which creates succeeded is recomputed below from prefixes)
\* an entity with a path exists iff it or a descendant was successfully created
Succeeded == {i \in DOMAIN hist : hist[i].op = "create" /\ PathOf(hist[i].segs) # <<>> /\
                 \A j \in 1..(i - 1) : ~(hist[j].op = "create" /\ PathOf(hist[i].segs) \in WithDirs(PathOf(hist[j].segs)))}
ExistsIff == \A s \in Alphabet : PathOf(s) # <<>> =>
   (ExistsS(s) <=> \E i \in Succeeded : PathOf(s) \in WithDirs(PathOf(hist[i].segs)))
\* the data of a Sid = overlay, in call order, of everything successfully written to its sidecar, plus 'sid'
WritesTo(k) == SelectSeq(hist, LAMBDA h : PathOf(h.segs) # <<>> /\ SideKey(PathOf(h.segs)) = k /\ h.data # <<>>)
TreeOK == \A p \in tree : \A q \in WithDirs(p) : q \in tree
NoCrossTalk == \A k \in DOMAIN side : \E s \in Alphabet : PathOf(s) # <<>> /\ SideKey(PathOf(s)) = k
SidAlwaysThere == \A s \in Alphabet : PathOf(s) # <<>> => DGet(DataOf(s), "sid") = JoinStr(s, "/")
\* action properties: a failing call changes nothing; a write touches only the sidecar of its own path
FailChangesNothing == [][last'.raised # "" => UNCHANGED <<tree, side>>]_vars
SKOf(s) == IF PathOf(s) = <<>> THEN <<>> ELSE SideKey(PathOf(s))
WriteIsLocal == [][\A k \in DOMAIN side : k # SKOf(hist'[Len(hist')].segs) => (k \in DOMAIN side' /\ side'[k] = side[k])]_vars
SameStemSharesData == PathOf(F1) # <<>> /\ PathOf(F2) # <<>> => SideKey(PathOf(F1)) = SideKey(PathOf(F2))
=============================================================================
