SPECIFICATION Spec
CONSTANTS MaxOps = 3
PROPERTY Frozen
INVARIANT EqualIffSameUri
CHECK_DEADLOCK FALSE
