SPECIFICATION Spec
CONSTANTS MaxEdits = 1
          PickN = 2
          MaxSegs = 12
          FullVocab = FALSE
          ProductBases = FALSE
INVARIANT TypedShape
INVARIANT UntypedShape
INVARIANT FirstWins
INVARIANT TypedIffSomeMatch
INVARIANT ForcedOnly
CHECK_DEADLOCK FALSE
