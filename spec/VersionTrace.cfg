INIT TrInit
NEXT TrNext
CONSTANTS MaxSteps = 1000
          InitSets = {{}}
POSTCONDITION Accepted
CHECK_DEADLOCK FALSE
