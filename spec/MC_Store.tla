------------------------------ MODULE MC_Store ------------------------------
(* Read-side families over the materialised universes:                       *)
(*   sidreads (C12): exists / children / siblings of every concrete Sid,     *)
(*                   existing or not;                                        *)
(*   getter   (C16): searches x attribute subsets x sid encoders.            *)
EXTENDS Store
CONSTANTS Family, Univs
VARIABLES call
vars == <<call>>

Missing(n) == {Append(Front(e), "nope") : e \in {x \in UniverseTable[n] : Len(x) > 1}}
              \cup {Append(e, "nope") : e \in {x \in UniverseTable[n] : Len(x) \in {3, 5}}}
\* a constant-backed entity below a parent that does not exist (constants exist only below an existing parent)
MissingDeep(n) ==
  UNION {LET t == ResolveFirst(e).type IN
         IF t = "" \/ Len(e) < 3 THEN {} ELSE
         IF ~IsConstType(t) THEN {} ELSE
         LET ph == Templates[IdxOf(t)].ph[Len(e) - 1]
             cands == {[e EXCEPT ![Len(e) - 1] = NthConcrete(ph, k)] : k \in 1..6}
             good == {c \in cands : ResolveFirst(c).type = t /\
                        ~\E x \in UniverseTable[n] : Len(x) >= Len(c) - 1 /\ SubSeq(x, 1, Len(c) - 1) = Front(c)}
         IN IF good = {} THEN {} ELSE {CHOOSE c \in good : TRUE}
         : e \in UniverseTable[n]}
SidReadCalls(n) == {[op |-> "sidreads", univ |-> n, segs |-> e] : e \in UniverseTable[n] \cup Missing(n) \cup MissingDeep(n)}
\* a few searches per universe: the first leaf, with progressively more of it searched
GetterSearches(n) ==
  LET p == CHOOSE p \in 1..Len(n) : SubSeq(n, p, p) = ":"
      b == SubSeq(n, 1, p - 1)
      lt == IF b \in BaseTypes /\ LeafTs(b) # {} THEN LeafTs(b) ELSE LeafTs(CHOOSE bb \in BaseTypes : LeafTs(bb) # {})
      s == FirstString(MinOf(lt))
      sg(seq) == [segs |-> [i \in DOMAIN seq |-> <<seq[i]>>], query |-> <<>>]
  IN { sg(s), sg([s EXCEPT ![Len(s)] = "*"]), sg(SubSeq(s, 1, 4)), sg(SubSeq(s, 1, 3) \o <<"*">>), sg(SubSeq(s, 1, 5) \o <<"*">>),
       sg(SubSeq(s, 1, 6) \o <<"*">>), sg(SubSeq(s, 1, 2)), sg(SubSeq(s, 1, 2) \o <<"*">>), sg(<<s[1]>>),
       sg(SubSeq(s, 1, 3) \o <<"**">>), sg(SubSeq(s, 1, 5) \o <<">">>), sg(SubSeq(s, 1, 4) \o <<"*", ">">>),
       \* '>' with the leaf searched: the expression unfolds to several types that all have entries in one group
       sg([s EXCEPT ![Len(s)] = "*", ![Len(s) - 2] = ">"]), sg([s EXCEPT ![Len(s)] = "*", ![Len(s) - 3] = ">"]),
       sg(<<"junk">>), [segs |-> [i \in DOMAIN s |-> <<s[i]>>], query |-> << <<"foo", <<"bar">> >> >>] }
AttrSets == { <<>>, <<"n">>, <<"n", "k3">>, <<"missing">>, <<"sid", "n">> }
GetterCalls(n) == {[op |-> "getter", univ |-> n, search |-> s, attrs |-> a, enc |-> e] :
                      s \in GetterSearches(n), a \in AttrSets, e \in {"str", "uri", "none"}}
Init == \E n \in Univs : call = [op |-> "seed", univ |-> n]
Next == call.op = "seed" /\ \E c \in (IF Family = "sidreads" THEN SidReadCalls(call.univ) ELSE GetterCalls(call.univ)) : call' = c
Spec == Init /\ [][Next]_vars

(* ---------------- C12 on the model ---------------- *)
Idx == UIdx[FALSE][call.univ]
X == ResolveFirst(call.segs)
Ex(e) == ExistsSid(Idx, ResolveFirst(e))
IsRead == call.op = "sidreads"
ChildrenAreChildren == IsRead => \A e \in ChildrenOf(Idx, X) : Len(e) = Len(call.segs) + 1 /\ SubSeq(e, 1, Len(call.segs)) = call.segs /\ Ex(e)
ExistingChildrenFound == (IsRead /\ X.type # "" /\ KeyType(X) # LeafKeyOf(BaseType(X))) =>
   \A e \in UniverseTable[call.univ] : (Len(e) = Len(call.segs) + 1 /\ SubSeq(e, 1, Len(call.segs)) = call.segs /\ Ex(e)) => e \in ChildrenOf(Idx, X)
LeafHasNoChildren == (IsRead /\ X.type # "" /\ KeyType(X) = LeafKeyOf(BaseType(X))) => ChildrenOf(Idx, X) = {}
SiblingsShareParent == IsRead => \A e \in SiblingsOf(Idx, X) : Len(e) = Len(call.segs) /\ Front(e) = Front(call.segs) /\ Ex(e)
SelfAmongSiblings == (IsRead /\ X.type # "" /\ Ex(call.segs)) => call.segs \in SiblingsOf(Idx, X)
\* whatever exists in the tree has an existing nearest ancestor that has a path
ParentClosed == IsRead => \A c \in Cfgs : \A e \in EntriesOf(UIdx[FALSE][call.univ][c]) :
   Len(e) = 1 \/ \E n \in 1..(Len(e) - 1) : SubSeq(e, 1, n) \in EntriesOf(UIdx[FALSE][call.univ][c])
=============================================================================
