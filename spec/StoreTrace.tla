----------------------------- MODULE StoreTrace -----------------------------
(* code -> spec for the write side: each trace line is one Writer call (or a *)
(* reset, or a read from a fresh process) with what the implementation       *)
(* returned and the FULL projected state afterwards (directory listing,       *)
(* parsed sidecars, exists / get_data of every Sid of the alphabet).  The     *)
(* model state is advanced by the StoreDyn action itself and compared.        *)
EXTENDS StoreDyn
Tr == ndJsonDeserialize(IOEnv.TRACE_FILE)
VARIABLES l, fails
tvars == <<tree, side, hist, last, l, fails>>
Cap == 300
C(name, ok) == <<name, ok>>
SideFun(sc) == [k \in {<<sc[i][1], sc[i][2]>> : i \in DOMAIN sc} |-> (CHOOSE i \in DOMAIN sc : <<sc[i][1], sc[i][2]>> = k) ]
ObsSide(sc) == [k \in {<<sc[i][1], sc[i][2]>> : i \in DOMAIN sc} |-> sc[CHOOSE i \in DOMAIN sc : <<sc[i][1], sc[i][2]>> = k][3]]
\* reads are checked on the CURRENT (unprimed) state, in a step of their own (a line "dynreads" follows every call)
\* (in the default configuration exists() goes through FindInAll - levels backed by constants included; in another
\*  configuration the path finder of that configuration is asked, which only knows entities that have a path)
Reads(o, dflt) ==
  << C("reads_noraise", \A i \in DOMAIN o.exists : o.exists[i][4] = ""),
     C("exists", \A i \in DOMAIN o.exists : o.exists[i][2] = (ExistsS(o.exists[i][1]) /\ (dflt \/ PathOf(o.exists[i][1]) # <<>>))),
     C("find_ancestors", \A i \in DOMAIN o.exists : o.exists[i][3] = (ExistsS(o.exists[i][1]) /\ PathOf(o.exists[i][1]) # <<>>)),
     C("data", \A i \in DOMAIN o.data : {<<o.data[i][2][k][1], o.data[i][2][k][2]>> : k \in DOMAIN o.data[i][2]}
                                         = {<<DataOf(o.data[i][1])[k][1], DataOf(o.data[i][1])[k][2]>> : k \in DOMAIN DataOf(o.data[i][1])}),
     C("data_new_getter", o.data = o.data_new_getter) >>
StepClauses(e) == LET o == e.obs IN
  << C("ret", o.ret = last'.ret),
     C("raise", o.raised = last'.raised),
     C("tree", ToSet(o.listing) = tree'),
     C("side", ObsSide(o.sidecars) = side') >>
FreshClauses(e) == LET o == e.obs IN
  << C("fresh_process_data", \A i \in DOMAIN o.data : {<<o.data[i][2][k][1], o.data[i][2][k][2]>> : k \in DOMAIN o.data[i][2]}
                                         = {<<DataOf(o.data[i][1])[k][1], DataOf(o.data[i][1])[k][2]>> : k \in DOMAIN DataOf(o.data[i][1])}),
     C("fresh_process_exists", \A i \in DOMAIN o.exists : o.exists[i][2] = (ExistsS(o.exists[i][1]) /\ (e.call.default \/ PathOf(o.exists[i][1]) # <<>>))) >>
Note(f) == fails' = IF f = <<>> \/ Len(fails) >= Cap THEN fails ELSE Append(fails, <<l, [i \in DOMAIN f |-> f[i][1]]>>)
Failed(cl) == SelectSeq(cl, LAMBDA c : ~c[2])
TrReset == /\ Tr[l].call.op = "dynreset"
           /\ tree' = {} /\ side' = <<>> /\ hist' = <<>> /\ last' = Ok /\ fails' = fails
TrStep == /\ Tr[l].call.op = "dyn"
          /\ LET st == Tr[l].call.step IN
               IF st.op = "create" THEN Create(st.segs, st.data) ELSE UpdateData(st.segs, st.data)
          /\ Note(Failed(StepClauses(Tr[l])))
TrReads == /\ Tr[l].call.op = "dynreads"
           /\ UNCHANGED <<tree, side, hist, last>>
           /\ Note(Failed(Reads(Tr[l].obs, Tr[l].call.default)))
TrFresh == /\ Tr[l].call.op = "dynfresh"
           /\ UNCHANGED <<tree, side, hist, last>>
           /\ Note(Failed(FreshClauses(Tr[l])))
Bump(cov, t) == [x \in DOMAIN cov \cup {t} |-> IF x = t THEN (IF t \in DOMAIN cov THEN cov[t] + 1 ELSE 1) ELSE cov[x]]
Tag(e) == IF e.call.op = "dyn" THEN "dyn:" \o e.call.step.op \o ":" \o (IF last'.raised = "" THEN "ok" ELSE "refused") ELSE e.call.op
TrInit == Init /\ l = 1 /\ fails = <<>> /\ TLCSet(1, <<>>) /\ TLCSet(2, <<>>)
TrNext == /\ l <= Len(Tr)
          /\ l' = l + 1
          /\ (TrReset \/ TrStep \/ TrReads \/ TrFresh)
          /\ TLCSet(1, fails')
          /\ TLCSet(2, Bump(TLCGet(2), Tag(Tr[l])))
Accepted == LET f == TLCGet(1) IN
            /\ \A i \in DOMAIN f : PrintT(<<"FAIL", f[i]>>)
            /\ PrintT(<<"COVER", [t \in DOMAIN TLCGet(2) |-> <<t, TLCGet(2)[t]>>]>>)
            /\ PrintT(<<"CONSUMED", TLCGet("stats").diameter - 1, Len(Tr)>>)
            /\ TLCGet("stats").diameter - 1 = Len(Tr)
            /\ f = <<>>
=============================================================================
