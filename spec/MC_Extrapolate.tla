--------------------------- MODULE MC_Extrapolate ---------------------------
(* C19: template extrapolation and pattern replacement over a GRAMMAR of    *)
(* configurations.  A state is one template configuration, built entry by  *)
(* entry (explicit types at arbitrary levels of up to four hierarchies     *)
(* that share prefixes, key names that also occur in basetype names,       *)
(* explicit names that collide with would-be generated ones), a set of     *)
(* types to extrapolate and a list of pattern selectors.  TLC checks the   *)
(* declarative statement ExtrapolationOK(in, Extrapolate(in)) on every     *)
(* configuration and dumps them; each is then given to the real            *)
(* extrapolate_templates / pattern_replacing.                              *)
EXTENDS Spil
CONSTANTS MaxEntries, MaxX, MaxSel, SecondPair
VARIABLES cfg
vars == <<cfg>>

\* hierarchies: basetype -> chain of placeholders.  'project' / 'type' prefixes are shared;
\* "shot" has a key named like the basetype; "seq" has keys that contain one another.
\* "asset2" is a second chain of the basetype asset that DIVERGES from the first one in the middle ({step} inserted):
\* the same key names then occur at different depths of two extrapolated types
Chains == [asset |-> <<"{project}", "{type:a}", "{assettype}", "{asset}", "{task}", "{version}">>,
           asset2 |-> <<"{project}", "{type:a}", "{assettype}", "{asset}", "{step}", "{task}", "{version}">>,
           shot  |-> <<"{project}", "{type:s}", "{sequence}", "{shot}", "{task}">>,
           seq   |-> <<"{project}", "{type:q}", "{seq}", "{seqs}">>,
           project |-> <<"{project}">>]
Bases == DOMAIN Chains
\* the canonical name, the bare basetype (no separator), and a name that collides with a would-be generated one
BaseName(b) == IF b = "asset2" THEN "asset" ELSE b
NameChoices(b, n) == {BaseName(b) \o Sep \o KeyOfPh(Chains[b][n]), BaseName(b)} \cup
                     (IF n > 1 THEN {BaseName(b) \o Sep \o KeyOfPh(Chains[b][n - 1])} ELSE {}) \cup
                     (IF b = "asset2" THEN {"asset" \o Sep \o "file"} ELSE {})
Entry(b, n, nm) == [name |-> nm, base |-> BaseOfName(nm), ph |-> SubSeq(Chains[b], 1, n)]
Selectors == {"__", "shot", "t"}
Pairs == { <<"{task}", "{task:(a|b)}">>, <<"{project}", "{project:(p|\\*)}">>, <<"{task:(a|b)}", "{task:(c)}">> }

Init == cfg = [templates |-> <<>>, toX |-> {}, kps |-> <<>>]
AddEntry == Len(cfg.templates) < MaxEntries /\ cfg.toX = {} /\ cfg.kps = <<>> /\
            \E b \in Bases : \E n \in 1..Len(Chains[b]) : \E nm \in NameChoices(b, n) :
               /\ nm \notin Names(cfg.templates)
               /\ SubSeq(Chains[b], 1, n) \notin Tpls(cfg.templates)      \* the input has no duplicate templates
               /\ cfg' = [cfg EXCEPT !.templates = Append(@, Entry(b, n, nm))]
MarkX == Cardinality(cfg.toX) < MaxX /\ cfg.kps = <<>> /\
         \E i \in DOMAIN cfg.templates : cfg.templates[i].name \notin cfg.toX /\ Len(cfg.templates[i].ph) > 1 /\
            cfg' = [cfg EXCEPT !.toX = @ \cup {cfg.templates[i].name}]
AddSel == Len(cfg.kps) < MaxSel /\ cfg.templates # <<>> /\
          \E s \in Selectors : (\A i \in DOMAIN cfg.kps : cfg.kps[i].sel # s) /\
          \E p \in Pairs : cfg' = [cfg EXCEPT !.kps = Append(@, [sel |-> s, pairs |-> <<p>>])]
AddPair == SecondPair /\ cfg.kps # <<>> /\ Len(cfg.kps[Len(cfg.kps)].pairs) < 2 /\
           \E p \in Pairs : (\A i \in DOMAIN cfg.kps[Len(cfg.kps)].pairs : cfg.kps[Len(cfg.kps)].pairs[i][1] # p[1]) /\
              cfg' = [cfg EXCEPT !.kps[Len(cfg.kps)].pairs = Append(@, p)]
Next == AddEntry \/ MarkX \/ AddSel \/ AddPair
Spec == Init /\ [][Next]_vars

(* ---------------- the property, declaratively ---------------- *)
In == cfg.templates
Out == Extrapolate(In, cfg.toX)
IsIn(e) == \E i \in DOMAIN In : In[i] = e
Pos(seq, e) == CHOOSE i \in DOMAIN seq : seq[i] = e
KeptInOrder == SelectSeq(Out, IsIn) = In
NoDuplicates == /\ \A i, j \in DOMAIN Out : Out[i].name = Out[j].name => i = j
                /\ \A i, j \in DOMAIN Out : Out[i].ph = Out[j].ph => i = j
\* every added entry is a proper prefix of the nearest explicit entry before it, that entry is
\* extrapolated, and the added entry is named basetype + separator + last key of the prefix
Owner(k) == In[MaxOf({i \in DOMAIN In : Pos(Out, In[i]) < k})]
OnlyPrefixesAdded == \A k \in DOMAIN Out : ~IsIn(Out[k]) =>
      LET o == Owner(k) IN
        /\ o.name \in cfg.toX
        /\ Len(Out[k].ph) < Len(o.ph) /\ Out[k].ph = SubSeq(o.ph, 1, Len(Out[k].ph))
        /\ Out[k].name = o.base \o Sep \o KeyOfPh(Out[k].ph[Len(Out[k].ph)])
LongestFirst == \A k \in DOMAIN Out : (k > 1 /\ ~IsIn(Out[k]) /\ ~IsIn(Out[k - 1])) => Len(Out[k].ph) < Len(Out[k - 1].ph)
\* completeness: every prefix of an extrapolated type is owned by some type, unless its name was taken
Complete == \A i \in DOMAIN In : In[i].name \in cfg.toX =>
      \A n \in 1..(Len(In[i].ph) - 1) :
         \/ \E k \in DOMAIN Out : Out[k].ph = SubSeq(In[i].ph, 1, n)
         \/ \E k \in DOMAIN Out : Out[k].name = In[i].base \o Sep \o KeyOfPh(In[i].ph[n])
ExtrapolationOK == KeptInOrder /\ NoDuplicates /\ OnlyPrefixesAdded /\ LongestFirst /\ Complete
\* pattern replacement is scoped by the selector and touches nothing else
Repl == PatternReplace(Out, cfg.kps)
ReplaceScoped == \A k \in DOMAIN Out :
      /\ Repl[k].name = Out[k].name /\ Len(Repl[k].ph) = Len(Out[k].ph)
      /\ ((\A s \in DOMAIN cfg.kps : ~StrContains(Out[k].name, cfg.kps[s].sel)) => Repl[k] = Out[k])
      /\ \A j \in DOMAIN Out[k].ph : Repl[k].ph[j] # Out[k].ph[j] =>
            \E s \in DOMAIN cfg.kps : StrContains(Out[k].name, cfg.kps[s].sel) /\
               \E p \in DOMAIN cfg.kps[s].pairs : cfg.kps[s].pairs[p][2] = Repl[k].ph[j] \/ cfg.kps[s].pairs[p][1] = Out[k].ph[j]
=============================================================================
