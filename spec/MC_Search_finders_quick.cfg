SPECIFICATION Spec
CONSTANTS Family = "finders"
          MaxEdits = 1
          UnivKinds = {"complete"}
          WithGt = TRUE
INVARIANT FindersAgree
INVARIANT JunkChangesNothing
CHECK_DEADLOCK FALSE
