SPECIFICATION Spec
CONSTANTS Family = "finders"
          MaxEdits = 1
          UnivKinds = {"complete"}
          GtFirst = FALSE
          WithGt = TRUE
INVARIANT FindersAgree
INVARIANT JunkChangesNothing
CHECK_DEADLOCK FALSE
