------------------------------ MODULE WriteTrace ------------------------------
(* code -> spec for C17.  Three kinds of lines:                                *)
(*  wbegin / weffect / wend : the file-system effects of ONE real set() call,  *)
(*      recorded with strace, replayed through the actions of SidecarWrite     *)
(*      with Protocol = "tmp_replace"; after EVERY effect the crash-safety     *)
(*      invariant is evaluated (what would a reader see if the process died    *)
(*      now?).                                                                 *)
(*  crash   : a materialised crash state (effects up to a point, possibly a    *)
(*      partial write) read back and written again by a new process.           *)
(*  corrupt : a corrupted sidecar read back.                                   *)
EXTENDS Naturals, Sequences, FiniteSets, TLC, TLCExt, Json, IOUtils, SequencesExt
Tr == ndJsonDeserialize(IOEnv.TRACE_FILE)
VARIABLES disk, pc, target, l, fails, written, first
PayloadLen == 4
W == INSTANCE SidecarWrite WITH Protocol <- "tmp_replace", PayloadLen <- 4, FirstWrite <- FALSE
Cap == 300
C(name, ok) == <<name, ok>>
Note(cl) == LET f == SelectSeq(cl, LAMBDA c : ~c[2]) IN
            fails' = IF f = <<>> \/ Len(fails) >= Cap THEN fails ELSE Append(fails, <<l, [i \in DOMAIN f |-> f[i][1]]>>)
OldValue == IF first THEN "sid-only" ELSE "old"
CrashSafe(d) == W!ReadOf(d["dst"]) \in {IF first THEN "sid-only" ELSE "old", "new"}
Keep == UNCHANGED <<disk, pc, target, written, first>>

TrBegin == /\ Tr[l].call.op = "wbegin"
           /\ first' = Tr[l].call.first
           /\ disk' = [f \in W!Files |-> IF f = "other" THEN W!Old ELSE IF f = "dst" /\ ~Tr[l].call.first THEN W!Old ELSE W!Absent]
           /\ pc' = "idle" /\ target' = "" /\ written' = 0 /\ fails' = fails
\* one recorded effect = one action of the specification (or a named composition of two)
Effect(e) ==
  IF e.kind = "open_read" THEN
       IF e.file = "dst" /\ pc = "idle" THEN W!ReadOld /\ written' = written /\ first' = first /\ Note(<<>>)
       ELSE Keep /\ Note(<< C("unexpected_read", e.file = "dst") >>)
  ELSE IF e.kind = "open_trunc" THEN
       \* the code checks exists() before reading: on a first write there is no read effect, ReadOld is implicit
       LET pcr == IF pc = "idle" THEN "read" ELSE pc IN
       IF e.file = "tmp" /\ pcr = "read"
       THEN /\ disk' = [disk EXCEPT !["tmp"] = <<"new", 0>>] /\ target' = "tmp" /\ pc' = "open" /\ written' = 0 /\ first' = first
            /\ Note(<<>>)
       ELSE \* not an action of the tmp_replace protocol: apply what it does to the disk, and say so
            /\ disk' = [disk EXCEPT ![e.file] = <<"new", 0>>] /\ target' = e.file /\ pc' = "open" /\ written' = 0 /\ first' = first
            /\ Note(<< C("truncates_the_sidecar_in_place", FALSE) >>)
  ELSE IF e.kind = "write" THEN
       LET w2 == written + e.n
           k == IF w2 >= Tr[l].call.total THEN PayloadLen ELSE (w2 * PayloadLen) \div (Tr[l].call.total + 1) IN
       /\ disk' = [disk EXCEPT ![e.file] = <<"new", k>>] /\ written' = w2 /\ UNCHANGED <<pc, target, first>>
       /\ Note(<< C("write_to_open_file", pc = "open" /\ target = e.file) >>)
  ELSE IF e.kind = "close" THEN
       IF pc = "open" /\ target = e.file
       THEN /\ pc' = (IF e.file = "tmp" THEN "closed" ELSE "done") /\ target' = "" /\ UNCHANGED <<disk, written, first>>
            /\ Note(<< C("closed_complete", disk[e.file] = <<"new", PayloadLen>>) >>)
       ELSE Keep /\ Note(<<>>)          \* closing the handle the old data was read from
  ELSE IF e.kind = "rename" THEN
       IF e.file = "tmp" /\ e.n = "dst" /\ pc = "closed" THEN W!Replace /\ UNCHANGED <<written, first>> /\ Note(<<>>)
       ELSE Keep /\ Note(<< C("unexpected_rename", FALSE) >>)
  ELSE Keep /\ Note(<< C("unexpected_effect_" \o e.kind, FALSE) >>)
TrEffect == /\ Tr[l].call.op = "weffect"
            /\ Effect(Tr[l].call)
TrSafe == \* evaluated as a separate line after every effect: if the process died now, would a reader be fine?
          /\ Tr[l].call.op = "wsafe" /\ Keep
          /\ Note(<< C("crash_here_leaves_old_or_new", CrashSafe(disk)), C("others_untouched", disk["other"] = W!Old) >>)
TrEnd == /\ Tr[l].call.op = "wend" /\ Keep
         /\ Note(<< C("noraise", Tr[l].obs.raised = "" /\ Tr[l].obs.ret),
                    C("finished", pc = "done"),
                    C("one_logical_write_is_one_replacement", Tr[l].obs.n_renames <= 1),
                    C("new_data_in_place", disk["dst"] = <<"new", PayloadLen>>),
                    C("no_leftover", disk["tmp"] = W!Absent),
                    C("reads_back_new", Tr[l].obs.final = Tr[l].obs.expect_new) >>)
IsHarness(e) == "raised" \in DOMAIN e.obs /\ Len(e.obs.raised) >= 7 /\ SubSeq(e.obs.raised, 1, 7) = "HARNESS"
TrHarness == IsHarness(Tr[l]) /\ Keep /\ Note(<< C("harness", FALSE) >>)
TrCrash == /\ Tr[l].call.op = "crash" /\ ~IsHarness(Tr[l]) /\ Keep
           /\ LET o == Tr[l].obs IN
              Note(<< C("noraise", o.raised = ""),
                      C("old_or_new", o.read = o.expect_old \/ o.read = o.expect_new),
                      C("others_untouched", o.read_other = o.expect_other /\ o.after_other = o.expect_other),
                      C("search_unaffected", o.found = o.expect_found),
                      C("next_write_succeeds", o.set_raised = "" /\ o.set_ret),
                      C("next_write_overlays", o.after = o.expect_after_old \/ o.after = o.expect_after_new) >>)
TrCorrupt == /\ Tr[l].call.op = "corrupt" /\ ~IsHarness(Tr[l]) /\ Keep
             /\ LET o == Tr[l].obs IN
                Note(<< C("noraise", o.raised = ""),
                        C("sid_only_or_valid", o.read = o.expect_sid_only \/ o.kind = "truncate"),
                        C("truncated_is_sid_only", o.kind # "truncate" \/ o.read = o.expect_sid_only),
                        C("others_untouched", o.read_other = o.expect_other),
                        C("search_unaffected", o.found = o.expect_found) >>)
Bump(cov, t) == [x \in DOMAIN cov \cup {t} |-> IF x = t THEN (IF t \in DOMAIN cov THEN cov[t] + 1 ELSE 1) ELSE cov[x]]
Tag(e) == IF e.call.op = "weffect" THEN "effect:" \o e.call.kind \o ":" \o e.call.file
          ELSE IF IsHarness(e) THEN "harness"
          ELSE IF e.call.op = "crash" THEN "crash:" \o (IF e.obs.point[2] >= 0 THEN "mid-write" ELSE "between-effects") \o ":" \o
                     (IF e.obs.read = e.obs.expect_new THEN "new" ELSE IF e.obs.read = e.obs.expect_old THEN "old" ELSE "ruin")
          ELSE IF e.call.op = "corrupt" THEN "corrupt:" \o e.obs.kind
          ELSE e.call.op
TrInit == /\ disk = [f \in W!Files |-> W!Absent] /\ pc = "idle" /\ target = "" /\ written = 0 /\ first = FALSE
          /\ l = 1 /\ fails = <<>> /\ TLCSet(1, <<>>) /\ TLCSet(2, <<>>)
TrNext == /\ l <= Len(Tr)
          /\ l' = l + 1
          /\ (TrBegin \/ TrEffect \/ TrSafe \/ TrEnd \/ TrCrash \/ TrCorrupt \/ TrHarness)
          /\ TLCSet(1, fails')
          /\ TLCSet(2, Bump(TLCGet(2), Tag(Tr[l])))
Accepted == LET f == TLCGet(1) IN
            /\ \A i \in DOMAIN f : PrintT(<<"FAIL", f[i]>>)
            /\ PrintT(<<"COVER", [t \in DOMAIN TLCGet(2) |-> <<t, TLCGet(2)[t]>>]>>)
            /\ PrintT(<<"CONSUMED", TLCGet("stats").diameter - 1, Len(Tr)>>)
            /\ TLCGet("stats").diameter - 1 = Len(Tr)
            /\ f = <<>>
=============================================================================
