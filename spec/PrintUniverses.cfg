
