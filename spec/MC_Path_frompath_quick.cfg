SPECIFICATION Spec
CONSTANTS Family = "frompath"
          MaxEdits = 1
INVARIANT RoundTrip
INVARIANT SameUpToRoot
INVARIANT OwnerOnly
CHECK_DEADLOCK FALSE
