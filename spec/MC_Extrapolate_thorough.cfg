SPECIFICATION Spec
CONSTANTS MaxEntries = 3
          MaxX = 1
          MaxSel = 0
          SecondPair = FALSE
INVARIANT ExtrapolationOK
INVARIANT ReplaceScoped
CHECK_DEADLOCK FALSE
