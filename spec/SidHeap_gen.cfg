SPECIFICATION Spec
CONSTANTS MaxOps = 12
CHECK_DEADLOCK FALSE
