SPECIFICATION Spec
CONSTANTS MaxSteps = 40
CHECK_DEADLOCK FALSE
