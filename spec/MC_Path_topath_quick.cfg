SPECIFICATION Spec
CONSTANTS Family = "topath"
          MaxEdits = 1
INVARIANT RoundTrip
INVARIANT SameUpToRoot
INVARIANT OwnerOnly
CHECK_DEADLOCK FALSE
