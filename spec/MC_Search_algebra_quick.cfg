SPECIFICATION Spec
CONSTANTS Family = "algebra"
          MaxEdits = 1
          UnivKinds = {"complete"}
          WithGt = FALSE
INVARIANT AlgebraHolds
CHECK_DEADLOCK FALSE
