SPECIFICATION Spec
CONSTANTS MaxEdits = 1
          PickN = 2
          MaxSegs = 12
          FullVocab = TRUE
          ProductBases = TRUE
INVARIANT TypedShape
INVARIANT UntypedShape
INVARIANT FirstWins
INVARIANT TypedIffSomeMatch
INVARIANT ForcedOnly
CHECK_DEADLOCK FALSE
