SPECIFICATION Spec
CONSTANTS Clients = {"c1", "c2"}
          MaxData = 3
          WarmerMayCrash = TRUE
INVARIANT TypeOK
INVARIANT NeverInvented
INVARIANT FileNeverInvented
INVARIANT CreatedNotLost
PROPERTY WarmupEnds
PROPERTY LockNotForever
CHECK_DEADLOCK FALSE
