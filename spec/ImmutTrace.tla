------------------------------ MODULE ImmutTrace ------------------------------
(* code -> spec for C14: after EVERY operation of a behaviour the snapshot of  *)
(* every handle must equal the value the specification bound at creation.      *)
EXTENDS SidHeap
Tr == ndJsonDeserialize(IOEnv.TRACE_FILE)
VARIABLES l, fails
Cap == 300
C(name, ok) == <<name, ok>>
Note(cl) == LET f == SelectSeq(cl, LAMBDA c : ~c[2]) IN
            fails' = IF f = <<>> \/ Len(fails) >= Cap THEN fails ELSE Append(fails, <<l, [i \in DOMAIN f |-> f[i][1]]>>)
SnapOk(sn, x) == sn.type = x.type /\ sn.fields = x.fields /\ sn.string = x.string /\ sn.uri = Uri(x)
TrReset == Tr[l].call.op = "ireset" /\ pop' = [h \in Handles |-> Nil] /\ hist' = <<>> /\ fails' = fails
TrStep == /\ Tr[l].call.op = "istep"
          /\ LET st == Tr[l].call.step  o == Tr[l].obs IN
             /\ (IF st.op = "make" THEN Make(st.h, st.c) ELSE Apply(st.h, st.op))
             /\ Note(<< C("noraise", o.raised = ""),
                        C("no_internal_container_handed_out", ~o.leak),
                        C("population_size", Len(o.snaps) = Cardinality({h \in Handles : pop'[h] # Nil})),
                        C("every_sid_is_what_it_was", \A i \in DOMAIN o.snaps : SnapOk(o.snaps[i], pop'[o.snaps[i].h])),
                        C("hash_stable", \A i \in DOMAIN o.snaps : o.snaps[i].hash_same),
                        C("fields_is_private_copy", \A i \in DOMAIN o.snaps : o.snaps[i].fields_private) >>)
Bump(cov, t) == [x \in DOMAIN cov \cup {t} |-> IF x = t THEN (IF t \in DOMAIN cov THEN cov[t] + 1 ELSE 1) ELSE cov[x]]
Tag(e) == IF e.call.op = "istep" THEN "op:" \o e.call.step.op ELSE e.call.op
TrInit == Init /\ l = 1 /\ fails = <<>> /\ TLCSet(1, <<>>) /\ TLCSet(2, <<>>)
TrNext == /\ l <= Len(Tr)
          /\ l' = l + 1
          /\ (TrReset \/ TrStep)
          /\ TLCSet(1, fails')
          /\ TLCSet(2, Bump(TLCGet(2), Tag(Tr[l])))
Accepted == LET f == TLCGet(1) IN
            /\ \A i \in DOMAIN f : PrintT(<<"FAIL", f[i]>>)
            /\ PrintT(<<"COVER", [t \in DOMAIN TLCGet(2) |-> <<t, TLCGet(2)[t]>>]>>)
            /\ PrintT(<<"CONSUMED", TLCGet("stats").diameter - 1, Len(Tr)>>)
            /\ TLCGet("stats").diameter - 1 = Len(Tr)
            /\ f = <<>>
=============================================================================
