----------------------------- MODULE VersionDyn -----------------------------
(* C18: the version workflow.  State = the file tree; actions = publish      *)
(* (create(get_new(target))) on task / version / state / file targets with   *)
(* concrete, '*' and '>' versions, from every initial set of versions.        *)
(* get_last / get_next / get_new are operators on the current state,          *)
(* written after the code path they take (FindInAll with '>', the configured  *)
(* NextGetter); the workflow guarantees are invariants over all histories.    *)
EXTENDS Store
CONSTANTS MaxSteps, InitSets      \* InitSets: set of sets of version numbers
VARIABLES tree, hist, last
vars == <<tree, hist, last>>
C0 == DefaultCfg
VKey == "version"

(* version tokens: prefix + zero padded number, as the configured pattern v\d\d\d *)
Nums == 0..20 \cup 996..1001
VTok(n) == "v" \o (IF n < 10 THEN "00" ELSE IF n < 100 THEN "0" ELSE "") \o ToString(n)
VT == [n \in Nums |-> VTok(n)]
IsV(tok) == \E n \in Nums : VT[n] = tok
VNum(tok) == IF IsV(tok) THEN CHOOSE n \in Nums : VT[n] = tok ELSE 0

(* the alphabet *)
LeafI == MinOf(LeafTs(CHOOSE b \in BaseTypes : LeafTs(b) # {}))
F1 == FirstString(LeafI)
VPos == CHOOSE j \in DOMAIN Templates[LeafI].ph : PhKey(Templates[LeafI].ph[j]) = VKey
T == SubSeq(F1, 1, VPos - 1)                              \* the task
TV(n) == Append(T, VT[n])
TS(n) == TV(n) \o <<F1[VPos + 1]>>                          \* a state (no path of its own)
TF(n) == TS(n) \o <<F1[VPos + 2]>>                          \* a file
Targets == {T, TV(1), TV(3), TS(3), TF(2), Append(T, "*"), Append(T, ">"), Append(T, "*") \o <<F1[VPos + 1], F1[VPos + 2]>>}
PathOf(s) == PathOfSegs(C0, s)
World == UNION {WithDirs(PathOf(TV(n))) \cup WithDirs(PathOf(TF(n))) : n \in Nums \ {0, 1000, 1001}}
WorldIdx == IndexOf(C0, World)
EmptyIdx == [c \in Cfgs |-> IndexOf(c, {})]
Idx == [c \in Cfgs |-> IF c = C0 THEN [p \in tree |-> IF p \in World THEN WorldIdx[p] ELSE FromPath(c, p).sid] ELSE EmptyIdx[c]]
InitTree(S) == UNION {WithDirs(PathOf(TV(n))) \cup (IF n % 2 = 1 THEN WithDirs(PathOf(TF(n))) ELSE {}) : n \in S}

(* ---- the three reads ---- *)
SidOfSegs(s) == ResolveFirst(s)
GetLast(sid, key) ==
  LET r == GetLastOf(Idx, sid, key)
  IN IF r = {} THEN EmptySid
     ELSE LET x == ResolveFirst(CHOOSE e \in r : TRUE) IN IF DHas(x.fields, key) /\ DGet(x.fields, key) # "" THEN x ELSE EmptySid
GetNext(sid) ==
  IF sid.type = "" THEN EmptySid
  ELSE LET cur == DGetOr(sid.fields, VKey, "")
           base == IF cur = "" THEN 0
                   ELSE IF cur \in {"*", ">"} THEN (LET l == GetLast(sid, VKey) IN IF l.type = "" THEN 0 ELSE VNum(DGet(l.fields, VKey)))
                   ELSE VNum(cur)
       IN IF base + 1 \notin Nums THEN EmptySid ELSE GetWithKw(sid, << <<VKey, VT[base + 1]>> >>).res
GetNew(sid) ==
  IF sid.type = "" THEN EmptySid
  ELSE IF DGetOr(sid.fields, VKey, "") # "" THEN
          LET l == GetLast(sid, VKey) IN IF l.type # "" THEN GetNext(l) ELSE GetNext(sid)
       ELSE LET w == GetLast(With1(sid, VKey, "*"), VKey) IN IF w.type # "" THEN GetNext(w) ELSE GetNext(sid)

(* ---- actions ---- *)
Init == \E S \in InitSets : tree = InitTree(S) /\ hist = <<[op |-> "init", versions |-> SetToSeq(S),
                                                              entries |-> SetToSeq({TV(n) : n \in S} \cup {TF(n) : n \in {m \in S : m % 2 = 1}})]>> /\ last = [ret |-> "", raised |-> "", new |-> <<>>]
Publish(t) ==
  LET new == GetNew(SidOfSegs(t))
      p == IF new.type = "" THEN <<>> ELSE ToPath(C0, new)
  IN /\ hist' = Append(hist, [op |-> "publish", target |-> t])
     /\ IF new.type = "" THEN tree' = tree /\ last' = [ret |-> "", raised |-> "", new |-> <<>>]
        ELSE IF p = <<>> \/ p \in tree THEN tree' = tree /\ last' = [ret |-> "", raised |-> "SpilException", new |-> DVals(new.fields)]
        ELSE tree' = tree \cup WithDirs(p) /\ last' = [ret |-> "True", raised |-> "", new |-> DVals(new.fields)]
Next == Len(hist) <= MaxSteps /\ \E t \in Targets : Publish(t)
Spec == Init /\ [][Next]_vars

(* ---- C18 as invariants ---- *)
Existing == {n \in Nums : PathOf(TV(n)) \in tree}
MaxExisting == IF Existing = {} THEN 0 ELSE MaxOf(Existing)
LastIsGreatest == LET l == GetLast(SidOfSegs(TV(1)), VKey) IN
   IF Existing = {} THEN l.type = "" ELSE DVals(l.fields) = TV(MaxExisting)
NextIsSuccessor == \A n \in {1, 3, 999} : LET x == GetNext(SidOfSegs(TV(n))) IN
   IF n + 1 > 999 THEN x.type = "" ELSE DVals(x.fields) = TV(n + 1)
NewIsFresh == \A t \in Targets : LET x == GetNew(SidOfSegs(t)) IN
   x.type = "" \/ ToPath(C0, x) = <<>> \/ ToPath(C0, x) \notin tree
NewIsSuccessorOfLast == \A t \in {T, Append(T, "*"), Append(T, ">"), TV(1), TV(3)} : LET x == GetNew(SidOfSegs(t)) IN
   IF MaxExisting >= 999 THEN x.type = ""
   ELSE IF Existing # {} \/ t \in {T, Append(T, "*"), Append(T, ">")} THEN x.type # "" /\ DVals(x.fields) = TV(MaxExisting + 1)
   ELSE TRUE
OtherFieldsKept == \A t \in Targets : LET s == SidOfSegs(t)  x == GetNew(s) IN
   x.type = "" \/ \A i \in DOMAIN s.fields : s.fields[i][1] = VKey \/ DGet(x.fields, s.fields[i][1]) = s.fields[i][2]
\* publishing yields strictly increasing, never reused versions
Monotone == [][ (last'.ret = "True" /\ Len(last'.new) = VPos) =>
                  (\A n \in Existing : n < VNum(last'.new[VPos])) /\ PathOf(last'.new) \notin tree ]_vars
=============================================================================
