INIT TrInit
NEXT TrNext
CONSTANTS MaxOps = 100000
POSTCONDITION Accepted
CHECK_DEADLOCK FALSE
