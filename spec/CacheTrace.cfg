INIT TrInit
NEXT TrNext
POSTCONDITION Accepted
CHECK_DEADLOCK FALSE
