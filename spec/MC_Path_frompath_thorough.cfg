SPECIFICATION Spec
CONSTANTS Family = "frompath"
          MaxEdits = 2
INVARIANT RoundTrip
INVARIANT SameUpToRoot
INVARIANT OwnerOnly
CHECK_DEADLOCK FALSE
