SPECIFICATION Spec
CONSTANTS Family = "getwith"
          NConcrete = 1
          Symbols = {"*"}
          MaxPairs = 1
INVARIANT Canonical
INVARIANT DictFirstIsNatural
INVARIANT DictOrderIrrelevant
INVARIANT UriRoundTrip
INVARIANT QueryRoundTrip
INVARIANT PrefixClosed
INVARIANT ParentLaws
INVARIANT AllOrNothing
INVARIANT OptionalNeverAdds
INVARIANT GetWithExact
CHECK_DEADLOCK FALSE
