SPECIFICATION Spec
CONSTANTS MaxSteps = 8
          InitSets = {{}, {1}, {1, 2, 3}, {3, 7}, {998}, {1, 999}, {2, 3, 7, 998}, {7, 998}}
CHECK_DEADLOCK FALSE
