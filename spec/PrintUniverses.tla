---- MODULE PrintUniverses ----
EXTENDS Universe
ASSUME \A n \in UniverseNames : PrintT(<<"UNIVERSE", n, UniverseSeq(n)>>)
====
