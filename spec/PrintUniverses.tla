---- MODULE PrintUniverses ----
EXTENDS Store
ASSUME \A n \in UniverseNames : PrintT(<<"UNIVERSE", n, UniverseSeq(n)>>)
ASSUME \A n \in StoreUniverses : PrintT(<<"DATA", n, SetToSeq({<<e, SideDataOf(e)>> : e \in {x \in UniverseTable[n] : SideDataOf(x) # <<>>}})>>)
ASSUME \A n \in StoreUniverses : \A c \in Cfgs : PrintT(<<"JUNK", n, c, SetToSeq(JunkOf(c, n))>>)
====
