------------------------------ MODULE Universe ------------------------------
(* Generated Sid universes (data sets) shared by the search, finder, store  *)
(* and getter models: defined once, from the configuration, so that the     *)
(* specification, the TLC families and the implementation harness all talk  *)
(* about the same entities.  A universe is a set of entries (sequences of   *)
(* segments); names are "<basetype>:<kind>".                                *)
EXTENDS Spil

FirstConcrete(ph) == IF Raw.accept[ph].any THEN Raw.open_values[1]
                     ELSE LET c == SelectSeq(Raw.accept[ph].toks, LAMBDA t : ~HasSymbolTok(t) /\ ~IsAlias(t)) IN c[1]
NthConcrete(ph, n) == IF Raw.accept[ph].any THEN Raw.open_values[IF n <= Len(Raw.open_values) THEN n ELSE 1]
                      ELSE LET c == SelectSeq(Raw.accept[ph].toks, LAMBDA t : ~HasSymbolTok(t) /\ ~IsAlias(t))
                           IN c[IF n <= Len(c) THEN n ELSE 1]
FirstString(i) == [j \in DOMAIN Templates[i].ph |-> FirstConcrete(Templates[i].ph[j])]
BaseTypes == {Templates[i].base : i \in TIdx}
IsLeafT(i) == LastKey(i) = LeafKeyOf(Templates[i].base)
LeafTs(b) == {i \in TIdx : Templates[i].base = b /\ IsLeafT(i)}
\* leaves of a basetype: the first string of every leaf template, and for each of them
\* single substitutions by the 2nd..4th value of every placeholder (names that are prefixes of
\* one another and contain '-', '.', '+', sparse versions, both states, other extensions)
Variants(i) == {FirstString(i)} \cup
               UNION {{[FirstString(i) EXCEPT ![j] = NthConcrete(Templates[i].ph[j], n)] :
                          n \in 2..(IF Raw.accept[Templates[i].ph[j]].any THEN 6 ELSE 3)} : j \in 3..Len(Templates[i].ph)}
               \* a group whose names are only 'oph' and 'oph-x' (whole-string order and segment order disagree on them)
               \cup UNION {{[FirstString(i) EXCEPT ![j - 1] = NthConcrete(Templates[i].ph[j - 1], 4), ![j] = Raw.open_values[n]] : n \in 2..3} :
                              j \in {jj \in 3..Len(Templates[i].ph) : Raw.accept[Templates[i].ph[jj]].any /\ ~Raw.accept[Templates[i].ph[jj - 1]].any}}
Leaves(b) == UNION {Variants(i) : i \in LeafTs(b)}
PrefixesOf(S) == UNION {{SubSeq(s, 1, n) : n \in 1..Len(s)} : s \in S}
NearMiss(b) == { <<"junk">>, <<FirstConcrete(Templates[1].ph[1]), "zz">>,
                 <<"junk", "a", "b", "c">> } \cup
               {Append(s, "zz") : s \in {FirstString(i) : i \in LeafTs(b)}}
Universe(name) ==
  LET p == CHOOSE p \in 1..Len(name) : SubSeq(name, p, p) = ":"
      b == SubSeq(name, 1, p - 1)
      kind == SubSeq(name, p + 1, Len(name))
  IN IF kind = "complete" THEN PrefixesOf(Leaves(b))
     ELSE IF kind = "leafonly" THEN Leaves(b)
     ELSE IF kind = "noisy" THEN PrefixesOf(Leaves(b)) \cup NearMiss(b)
     ELSE IF kind = "all" THEN UNION {PrefixesOf(Leaves(bb)) : bb \in BaseTypes}
     ELSE {}
UniverseNames == {b \o ":" \o k : b \in {bb \in BaseTypes : LeafTs(bb) # {}}, k \in {"complete", "leafonly", "noisy"}} \cup {"any:all"}
\* evaluated once by TLC (constant-level, zero arity): never recompute a universe per state
UniverseTable == [n \in UniverseNames |-> Universe(n)]
UniverseSeqTable == [n \in UniverseNames |-> SetToSeq(UniverseTable[n])]
UniverseSeq(name) == UniverseSeqTable[name]
=============================================================================
