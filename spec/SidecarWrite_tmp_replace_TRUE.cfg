SPECIFICATION Spec
CONSTANTS Protocol = "tmp_replace"
          PayloadLen = 4
          FirstWrite = TRUE
INVARIANT Atomic
INVARIANT OthersUntouched
INVARIANT NextWriteSucceeds
INVARIANT DoneMeansNew
INVARIANT NoLeftoverAfterDone
CHECK_DEADLOCK FALSE
