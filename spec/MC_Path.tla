------------------------------- MODULE MC_Path -------------------------------
(* Families for C05 (Sid -> path -> Sid) and C06 (arbitrary paths).          *)
(* topath  : every string of the universe-style value sets of every type    *)
(*           (types without path template and untyped strings included),     *)
(*           in every path configuration.                                    *)
(* frompath: from the valid path of the first string of every type, lexeme- *)
(*           level edits: substitute / drop / duplicate a lexeme (which      *)
(*           desynchronises repeated fields and changes literal parts),      *)
(*           drop / add a trailing component, swap the root.                 *)
EXTENDS Universe
CONSTANTS Family, MaxEdits
VARIABLES call, edits
vars == <<call, edits>>

SidOf(segs) == ResolveFirst(segs)
PathTokens == {"junk", "x", "", "_", ".", "-", "WORK", "PUBLISH", "w", "p", "v001", "v002", "ma", "mov", "abc",
               "PROD", "OUTPUT", "EXPORT", "hamlet", "HAMLET", "ASSETS", "SHOTS", "*", "oph", "ophelia"}
               \cup {Raw.open_values[4]}
AllVariants(i) == {FirstString(i)} \cup
                  UNION {{[FirstString(i) EXCEPT ![j] = NthConcrete(Templates[i].ph[j], n)] :
                            n \in 2..(IF Raw.accept[Templates[i].ph[j]].any THEN 6 ELSE 3)} : j \in 1..Len(Templates[i].ph)}
Init ==
  /\ edits = 0
  /\ \/ /\ Family = "topath"
        \* every string, naturally typed AND forced to every other type that accepts it (same string, other type:
        \* the path must depend on the type, not on the string)
        /\ \E i \in TIdx : \E s \in AllVariants(i) \cup {<<"junk">>, <<"hamlet", "zz">>} :
              \E u \in {<<>>} \cup {<<Templates[j].name>> : j \in AllTypesOf(s)} :
              call = [op |-> "topath", segs |-> s, uri |-> u]
     \/ /\ Family = "frompath"
        /\ \E i \in TIdx, c \in PathConfigs :
              /\ HasPath(c, Templates[i].name)
              /\ \E s \in {FirstString(i), [j \in DOMAIN FirstString(i) |-> NthConcrete(Templates[i].ph[j], 2)]} :
                    /\ ToPath(c, SidOf(s)) # <<>>
                    \* noconfig: the configuration argument is omitted (only meaningful for the default one)
                    /\ \E nc \in (IF c = Raw.default_path_config THEN BOOLEAN ELSE {FALSE}) :
                          call = [op |-> "frompath", cfg |-> c, path |-> ToPath(c, SidOf(s)), noconfig |-> nc]
P == call.path
SubLex == \E s \in 2..Len(P) : \E k \in DOMAIN P[s] : \E t \in PathTokens :
             t # P[s][k] /\ call' = [call EXCEPT !.path[s][k] = t]
DropLex == \E s \in 2..Len(P) : \E k \in DOMAIN P[s] :
             call' = [call EXCEPT !.path[s] = SubSeq(@, 1, k - 1) \o SubSeq(@, k + 1, Len(@))]
DupLex == \E s \in 2..Len(P) : \E k \in DOMAIN P[s] :
             call' = [call EXCEPT !.path[s] = SubSeq(@, 1, k) \o SubSeq(@, k, Len(@))]
DropSeg == Len(P) > 1 /\ call' = [call EXCEPT !.path = Front(@)]
AddSeg == \E t \in {"junk", "v001", "OUTPUT", ""} : call' = [call EXCEPT !.path = Append(@, <<t>>)]
SwapRoot == P[1] = <<"ROOT">> /\ \E r \in {<<"ROOT2">>, <<"relative">>, <<"">>} : call' = [call EXCEPT !.path[1] = r]
DropRoot == Len(P) > 1 /\ call' = [call EXCEPT !.path = Tail(@)]
Next == Family = "frompath" /\ edits < MaxEdits /\ edits' = edits + 1 /\
        (SubLex \/ DropLex \/ DupLex \/ DropSeg \/ AddSeg \/ SwapRoot \/ DropRoot)
Spec == Init /\ [][Next]_vars

(* ---------------- invariants on the specification ---------------- *)
X == MkFromString([op |-> "sid", uri |-> call.uri, segs |-> call.segs, query |-> <<>>])
RoundTrip == Family = "topath" => \A c \in PathConfigs :
   LET p == ToPath(c, X) IN
      IF X.type # "" /\ HasPath(c, X.type) THEN p # <<>> /\ (call.uri # <<>> \/ FromPath(c, p).sid = X) /\ ~FromPath(c, p).amb
      ELSE p = <<>>
\* two configurations that differ only by their root (same templates, patterns, mappings, defaults)
SameShape(c1, c2) == PC(c1).templates = PC(c2).templates /\ PC(c1).mapping = PC(c2).mapping /\
                     PC(c1).key_patterns = PC(c2).key_patterns /\ PC(c1).defaults = PC(c2).defaults
SameUpToRoot == Family = "topath" => \A c1, c2 \in PathConfigs : SameShape(c1, c2) => ToPath(c1, X) = ToPath(c2, X)
OwnerOnly == Family = "frompath" =>
   LET r == FromPath(call.cfg, call.path) IN r.sid.type = "" \/ SamePath(ToPath(call.cfg, r.sid), call.path)
=============================================================================
