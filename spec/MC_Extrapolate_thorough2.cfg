SPECIFICATION Spec
CONSTANTS MaxEntries = 2
          MaxX = 2
          MaxSel = 1
          SecondPair = TRUE
INVARIANT ExtrapolationOK
INVARIANT ReplaceScoped
CHECK_DEADLOCK FALSE
