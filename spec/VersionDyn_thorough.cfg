SPECIFICATION Spec
CONSTANTS MaxSteps = 3
          InitSets = {{}, {1}, {2}, {3}, {7}, {998}, {999}, {1, 2}, {1, 3}, {1, 7}, {1, 998}, {1, 999}, {2, 3}, {2, 7}, {2, 998}, {2, 999}, {3, 7}, {3, 998}, {3, 999}, {7, 998}, {7, 999}, {998, 999}, {1, 2, 3}, {1, 2, 7}, {1, 2, 998}, {1, 2, 999}, {1, 3, 7}, {1, 3, 998}, {1, 3, 999}, {1, 7, 998}, {1, 7, 999}, {1, 998, 999}, {2, 3, 7}, {2, 3, 998}, {2, 3, 999}, {2, 7, 998}, {2, 7, 999}, {2, 998, 999}, {3, 7, 998}, {3, 7, 999}, {3, 998, 999}, {7, 998, 999}, {1, 2, 3, 7}, {1, 2, 3, 998}, {1, 2, 3, 999}, {1, 2, 7, 998}, {1, 2, 7, 999}, {1, 2, 998, 999}, {1, 3, 7, 998}, {1, 3, 7, 999}, {1, 3, 998, 999}, {1, 7, 998, 999}, {2, 3, 7, 998}, {2, 3, 7, 999}, {2, 3, 998, 999}, {2, 7, 998, 999}, {3, 7, 998, 999}, {1, 2, 3, 7, 998}, {1, 2, 3, 7, 999}, {1, 2, 3, 998, 999}, {1, 2, 7, 998, 999}, {1, 3, 7, 998, 999}, {2, 3, 7, 998, 999}, {1, 2, 3, 7, 998, 999}}
INVARIANT LastIsGreatest
INVARIANT NextIsSuccessor
INVARIANT NewIsFresh
INVARIANT NewIsSuccessorOfLast
INVARIANT OtherFieldsKept
PROPERTY Monotone
CHECK_DEADLOCK FALSE
