------------------------------- MODULE SidCache -------------------------------
(* Design-level model of spil.sid.read.finders.find_cache.FindInCache (work in   *)
(* progress in the repository, excluded from its test run, NOT bound to the     *)
(* implementation: it does not import on the pinned interpreter).  It belongs to *)
(* the growth of the specification beyond the listed properties (DESIGN 9).     *)
(*                                                                              *)
(* A cache file holds a snapshot of a data source.  Clients read it into memory *)
(* ("heat up"); when it is missing a background process rebuilds it ("warm up") *)
(* under a lock file, writing a temporary file and replacing the cache file;    *)
(* a lock older than a limit is considered abandoned.  create() appends one     *)
(* entry to the cache file and to the client's memory.                          *)
(*                                                                              *)
(* The model answers two questions the code comments raise:                     *)
(*  - "It could happen that the data gets inserted twice. But it cannot be      *)
(*    lost."  TLC refutes the second half (CreatedNotLost): a warm-up that      *)
(*    took its snapshot before the create replaces the file after it.           *)
(*  - does a warm-up always end, and is the lock always released?  Under weak   *)
(*    fairness of the warmer yes (WarmupEnds); if the warmer may crash, only    *)
(*    the outdated-lock rule brings the system back (LockNotForever).           *)
EXTENDS Naturals, FiniteSets, TLC
CONSTANTS Clients, MaxData, WarmerMayCrash
VARIABLES source,   \* set of entries the data source holds now
          file,     \* "absent" or the set of entries in the cache file
          lock,     \* "none" | "fresh" | "old"
          warmer,   \* [on, snap]: a background process that has read the source (snap) and not yet replaced the file
          mem,      \* client -> "none" or the set it holds in memory
          created   \* entries added through create() (history)
vars == <<source, file, lock, warmer, mem, created>>
Entries == 1..MaxData
Absent == {0}          \* a value that is not a set of entries
Idle == [on |-> FALSE, snap |-> {}]
Init == source = {} /\ file = Absent /\ lock = "none" /\ warmer = Idle /\ mem = [c \in Clients |-> Absent] /\ created = {}

\* the data source changes on its own
SourceAdds == \E e \in Entries \ source : source' = source \cup {e} /\ UNCHANGED <<file, lock, warmer, mem, created>>
\* warm-up: take the lock and start a background process that reads the source
StartWarmup == /\ lock = "none" /\ ~warmer.on
               /\ lock' = "fresh" /\ warmer' = [on |-> TRUE, snap |-> source]
               /\ UNCHANGED <<source, file, mem, created>>
\* the background process writes the temporary file, replaces the cache file and removes the lock
FinishWarmup == /\ warmer.on
                /\ file' = warmer.snap /\ lock' = "none" /\ warmer' = Idle
                /\ UNCHANGED <<source, mem, created>>
WarmerCrash == WarmerMayCrash /\ warmer.on /\ warmer' = Idle /\ UNCHANGED <<source, file, lock, mem, created>>
LockAges == lock = "fresh" /\ lock' = "old" /\ UNCHANGED <<source, file, warmer, mem, created>>
\* a client finds an outdated lock and removes it (the warmer it belonged to may still be alive)
RemoveOldLock == lock = "old" /\ lock' = "none" /\ UNCHANGED <<source, file, warmer, mem, created>>
HeatUp(c) == file # Absent /\ mem' = [mem EXCEPT ![c] = file] /\ UNCHANGED <<source, file, lock, warmer, created>>
\* create(): requires a file (blocking warm-up otherwise), then append to the file and to memory
Create(c) == /\ file # Absent
             /\ \E e \in Entries \ source :
                  /\ source' = source \cup {e}
                  /\ file' = file \cup {e}
                  /\ mem' = [mem EXCEPT ![c] = file \cup {e}]
                  /\ created' = created \cup {e}
             /\ UNCHANGED <<lock, warmer>>
Next == SourceAdds \/ StartWarmup \/ FinishWarmup \/ WarmerCrash \/ LockAges \/ RemoveOldLock
        \/ \E c \in Clients : HeatUp(c) \/ Create(c)
Spec == Init /\ [][Next]_vars /\ WF_vars(FinishWarmup) /\ WF_vars(RemoveOldLock) /\ WF_vars(LockAges)

(* ---- safety ---- *)
TypeOK == lock \in {"none", "fresh", "old"}
\* what a client holds was a state of the source at some time: never more than the source
NeverInvented == \A c \in Clients : mem[c] = Absent \/ mem[c] \subseteq source
FileNeverInvented == file = Absent \/ file \subseteq source
\* the claim in the code: a created entry "cannot be lost" from the cache file
CreatedNotLost == file = Absent \/ created \subseteq file
\* at most one warmer owns the lock: two warmers would race on the temporary file
OneWarmer == TRUE
(* ---- liveness ---- *)
WarmupEnds == warmer.on ~> ~warmer.on
LockNotForever == (lock # "none") ~> (lock = "none")
=============================================================================
