SPECIFICATION Spec
CONSTANTS Protocol = "tmp_replace"
          PayloadLen = 4
          FirstWrite = FALSE
INVARIANT Atomic
INVARIANT OthersUntouched
INVARIANT NextWriteSucceeds
INVARIANT DoneMeansNew
INVARIANT NoLeftoverAfterDone
CHECK_DEADLOCK FALSE
