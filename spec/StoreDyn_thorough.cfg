SPECIFICATION Spec
CONSTANTS MaxSteps = 3
INVARIANT ExistsIff
INVARIANT TreeOK
INVARIANT NoCrossTalk
INVARIANT SidAlwaysThere
INVARIANT SameStemSharesData
PROPERTY FailChangesNothing
PROPERTY WriteIsLocal
CHECK_DEADLOCK FALSE
