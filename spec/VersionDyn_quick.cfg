SPECIFICATION Spec
CONSTANTS MaxSteps = 2
          InitSets = {{}, {1}, {1, 2}, {1, 3}, {3, 7}, {998}, {998, 999}, {999}, {1, 999}, {2, 3, 7, 998}}
INVARIANT LastIsGreatest
INVARIANT NextIsSuccessor
INVARIANT NewIsFresh
INVARIANT NewIsSuccessorOfLast
INVARIANT OtherFieldsKept
PROPERTY Monotone
CHECK_DEADLOCK FALSE
