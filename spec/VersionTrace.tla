---------------------------- MODULE VersionTrace ----------------------------
(* code -> spec for C18: every line is an initial tree or one publish step    *)
(* with get_last / get_next / get_new of the target read just before it.      *)
EXTENDS VersionDyn
Tr == ndJsonDeserialize(IOEnv.TRACE_FILE)
VARIABLES l, fails
Cap == 300
C(name, ok) == <<name, ok>>
Same(o, x) == o.type = x.type /\ o.fields = x.fields /\ o.string = x.string
Note(f) == fails' = IF f = <<>> \/ Len(fails) >= Cap THEN fails ELSE Append(fails, <<l, [i \in DOMAIN f |-> f[i][1]]>>)
Failed(cl) == SelectSeq(cl, LAMBDA c : ~c[2])
TrInitTree == /\ Tr[l].call.op = "vinit"
              /\ tree' = UNION {WithDirs(PathOf(Tr[l].call.entries[i])) : i \in DOMAIN Tr[l].call.entries}
              /\ hist' = <<>> /\ last' = [ret |-> "", raised |-> "", new |-> <<>>]
              /\ Note(Failed(<< C("tree", ToSet(Tr[l].obs.listing) = tree') >>))
TrPublish == /\ Tr[l].call.op = "vpublish"
             /\ LET t == Tr[l].call.target  o == Tr[l].obs  s == SidOfSegs(t) IN
                /\ Publish(t)
                /\ Note(Failed(<< C("noraise", o.reads_raised = ""),
                                  C("get_last", Same(o.last, GetLast(s, VKey))),
                                  C("get_next", Same(o.next, GetNext(s))),
                                  C("get_new", Same(o.new, GetNew(s))),
                                  \* (levels backed by constants "exist" by configuration; freshness is about entities that have a path)
                                  C("new_is_fresh", o.new.type = "" \/ ~HasPath(C0, o.new.type) \/ ~o.new_exists),
                                  C("ret", o.ret = last'.ret),
                                  C("raise", o.raised = last'.raised),
                                  C("tree", ToSet(o.listing) = tree') >>))
Bump(cov, t) == [x \in DOMAIN cov \cup {t} |-> IF x = t THEN (IF t \in DOMAIN cov THEN cov[t] + 1 ELSE 1) ELSE cov[x]]
Tag(e) == IF e.call.op = "vpublish" THEN "publish:" \o (IF last'.ret = "True" THEN "created" ELSE IF last'.raised # "" THEN "refused" ELSE "nothing-new") ELSE e.call.op
TrInit == tree = {} /\ hist = <<>> /\ last = [ret |-> "", raised |-> "", new |-> <<>>] /\ l = 1 /\ fails = <<>> /\ TLCSet(1, <<>>) /\ TLCSet(2, <<>>)
TrNext == /\ l <= Len(Tr)
          /\ l' = l + 1
          /\ (TrInitTree \/ TrPublish)
          /\ TLCSet(1, fails')
          /\ TLCSet(2, Bump(TLCGet(2), Tag(Tr[l])))
Accepted == LET f == TLCGet(1) IN
            /\ \A i \in DOMAIN f : PrintT(<<"FAIL", f[i]>>)
            /\ PrintT(<<"COVER", [t \in DOMAIN TLCGet(2) |-> <<t, TLCGet(2)[t]>>]>>)
            /\ PrintT(<<"CONSUMED", TLCGet("stats").diameter - 1, Len(Tr)>>)
            /\ TLCGet("stats").diameter - 1 = Len(Tr)
            /\ f = <<>>
=============================================================================
