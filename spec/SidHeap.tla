------------------------------- MODULE SidHeap -------------------------------
(* C14 (history part): a population of Sid handles and the public operations  *)
(* on them.  In the specification a Sid is a VALUE: no action ever changes a  *)
(* handle once it is bound (Frozen), and every container handed to the user   *)
(* is a fresh copy (the user may do anything with it).  TLC generates the     *)
(* operation sequences; the implementation is replayed along them and after   *)
(* every operation the snapshot (string, type, fields, uri, hash) of EVERY    *)
(* handle must still be what the specification says it was at creation.       *)
EXTENDS Universe
CONSTANTS MaxOps
VARIABLES pop,     \* handle -> Sid value ([type, fields, string]) or Nil
          hist
vars == <<pop, hist>>
Handles == 1..4
Nil == [type |-> "%nil", fields |-> <<>>, string |-> ""]
LeafI == MinOf(LeafTs(CHOOSE b \in BaseTypes : LeafTs(b) # {}))
S1 == FirstString(LeafI)
S2 == [S1 EXCEPT ![Len(S1)] = "*"]                 \* a search: same string, several types
Ctors == { [ctor |-> "string", uri |-> <<>>, segs |-> S1], [ctor |-> "fields", uri |-> <<>>, segs |-> S1],
           [ctor |-> "string", uri |-> <<>>, segs |-> S2],
           [ctor |-> "string", uri |-> <<Templates[MaxOf(AllTypesOf(S2))].name>>, segs |-> S2],     \* same string, other type
           [ctor |-> "path", uri |-> <<>>, segs |-> S1], [ctor |-> "string", uri |-> <<>>, segs |-> SubSeq(S1, 1, 4)],
           [ctor |-> "string", uri |-> <<>>, segs |-> <<"junk">>],
           \* a value with a space in it (accepted by an unrestricted key): as_query() drops spaces from what it RETURNS only
           [ctor |-> "string", uri |-> <<>>, segs |-> [k \in 1..4 |-> IF k = 4 THEN "oph elia" ELSE S1[k]]] }
ValueOf(c) == MkFromString([op |-> "sid", uri |-> c.uri, segs |-> c.segs, query |-> <<>>])
Free == {h \in Handles : pop[h] = Nil}
Bound == Handles \ Free
Ops == {"fields_set", "fields_del", "fields_clear", "parent", "get_as", "get_with", "get_with_none", "copy", "path", "as_query",
        "div", "str_repr_hash", "get", "eq_all", "sort_all", "uri", "is_search", "match_self", "get_with_query",
        "pycopy", "deepcopy", "pickle"}      \* the standard copy / pickle protocols: a new, equal, independent value
Make(h, c) == h \in Free /\ pop' = [pop EXCEPT ![h] = ValueOf(c)] /\ hist' = Append(hist, [op |-> "make", h |-> h, c |-> c])
\* an operation on a bound handle may bind its result to a free handle (derived Sids stay in the population)
Derived(x, op) == IF op = "parent" THEN Parent(x)
                  ELSE IF op = "get_as" THEN (IF x.fields = <<>> THEN EmptySid ELSE GetAs(x, x.fields[1][1]))
                  ELSE IF op \in {"copy", "pycopy", "deepcopy", "pickle"} THEN x
                  ELSE Nil
Apply(h, op) == /\ h \in Bound
                /\ hist' = Append(hist, [op |-> op, h |-> h])
                /\ IF Derived(pop[h], op) # Nil /\ Free # {}
                   THEN pop' = [pop EXCEPT ![MinOf(Free)] = Derived(pop[h], op)]
                   ELSE pop' = pop
Init == pop = [h \in Handles |-> Nil] /\ hist = <<>>
Next == Len(hist) < MaxOps /\ (\/ \E h \in Handles, c \in Ctors : Make(h, c) /\ h = MinOf(Free)
                               \/ \E h \in Handles, op \in Ops : Apply(h, op))
Spec == Init /\ [][Next]_vars
Frozen == [][\A h \in Handles : pop[h] # Nil => pop'[h] = pop[h]]_vars
EqualIffSameUri == \A a, b \in Bound : (pop[a] = pop[b]) <=> (Uri(pop[a]) = Uri(pop[b]))
=============================================================================
