-------------------------------- MODULE Cache --------------------------------
(* C13 at design level: a memoising wrapper around a pure function with       *)
(* positional / keyword / defaulted parameters, bounded capacity and          *)
(* "drop the last inserted" eviction (dict.popitem), as spil.util.caching.    *)
(* KeyMode selects how the cache key is derived from a call:                  *)
(*   "full"    : positional values + sorted (name, value) pairs               *)
(*   "kwnames" : positional values + keyword NAMES (what lru_kw_cache does)   *)
(* Transparent (every answer equals the function applied to the normalised    *)
(* call) holds for "full" over all histories; for "kwnames" TLC finds the     *)
(* violation (kept as a documented negative model).                           *)
EXTENDS Naturals, Sequences, FiniteSets, TLC
CONSTANTS KeyMode, Cap, MaxCalls
VARIABLES cache,    \* sequence of <<key, value>> in insertion order
          ret,      \* value returned by the last call
          lastcall, \* the last call
          n
vars == <<cache, ret, lastcall, n>>
\* f(p1, p2 = "d"):  p1 in {a, b}; p2 in {d, e}
P1 == {"a", "b"}
P2 == {"d", "e"}
\* a call: how p1 is passed (pos / kw) and how p2 is passed (absent / pos / kw)
Calls == {[p1 |-> v1, s1 |-> s1, p2 |-> v2, s2 |-> s2] : v1 \in P1, s1 \in {"pos", "kw"}, v2 \in P2, s2 \in {"absent", "pos", "kw"}}
Valid(c) == /\ (c.s2 = "absent" => c.p2 = "d")           \* absent means the default
            /\ (c.s2 = "pos" => c.s1 = "pos")            \* no positional after keyword
Norm(c) == <<c.p1, c.p2>>
Truth(c) == <<"f", c.p1, c.p2>>                            \* the pure function
Pos(c) == (IF c.s1 = "pos" THEN <<c.p1>> ELSE <<>>) \o (IF c.s2 = "pos" THEN <<c.p2>> ELSE <<>>)
KwItems(c) == (IF c.s1 = "kw" THEN {<<"p1", c.p1>>} ELSE {}) \cup (IF c.s2 = "kw" THEN {<<"p2", c.p2>>} ELSE {})
KwNames(c) == {x[1] : x \in KwItems(c)}
Key(c) == IF KeyMode = "full" THEN <<Pos(c), KwItems(c)>> ELSE <<Pos(c), KwNames(c)>>
Keys == {cache[i][1] : i \in DOMAIN cache}
Lookup(k) == cache[CHOOSE i \in DOMAIN cache : cache[i][1] = k][2]
Init == cache = <<>> /\ ret = <<>> /\ lastcall = [p1 |-> "a", s1 |-> "pos", p2 |-> "d", s2 |-> "absent"] /\ n = 0
Hit(c) == Key(c) \in Keys /\ ret' = Lookup(Key(c)) /\ cache' = cache
Miss(c) == Key(c) \notin Keys /\ ret' = Truth(c)
           /\ cache' = Append(IF Len(cache) >= Cap THEN SubSeq(cache, 1, Len(cache) - 1) ELSE cache, <<Key(c), Truth(c)>>)
Call(c) == Valid(c) /\ n < MaxCalls /\ n' = n + 1 /\ lastcall' = c /\ (Hit(c) \/ Miss(c))
Next == \E c \in Calls : Call(c)
Spec == Init /\ [][Next]_vars
Transparent == n > 0 => ret = Truth(lastcall)
KeyOwner == \A c1, c2 \in {c \in Calls : Valid(c)} : Key(c1) = Key(c2) => Norm(c1) = Norm(c2)
Bounded == Len(cache) <= Cap
=============================================================================
