SPECIFICATION Spec
CONSTANTS Family = "sidreads"
          Univs = {"asset:complete", "shot:complete"}
INVARIANT ChildrenAreChildren
INVARIANT ExistingChildrenFound
INVARIANT LeafHasNoChildren
INVARIANT SiblingsShareParent
INVARIANT SelfAmongSiblings
INVARIANT ParentClosed
CHECK_DEADLOCK FALSE
