------------------------------ MODULE MC_Core ------------------------------
(* Families for C02 (forms), C03 (navigation), C04 (query / get_with) and   *)
(* C14 (equality laws).  A state is one structured call; TLC checks, on    *)
(* every state, the theorems about configuration + algorithm that each     *)
(* property needs (canonical string, first dictionary type = natural type, *)
(* prefix closure, all-or-nothing overlay ...) and dumps the calls, which  *)
(* are then executed against the implementation.                           *)
EXTENDS Universe
CONSTANTS Family,        \* "forms" | "nav" | "query" | "getwith" | "eqlaws"
          NConcrete,     \* concrete values per placeholder
          Symbols,       \* search symbols added to the value sets, e.g. {"*", ">"}
          MaxPairs       \* overlay size for C04
VARIABLES call
vars == <<call>>

Concrete(ph) == IF Raw.accept[ph].any THEN {Raw.open_values[i] : i \in {j \in DOMAIN Raw.open_values : j <= NConcrete}}
                ELSE LET c == SelectSeq(Raw.accept[ph].toks, LAMBDA t : ~HasSymbolTok(t))
                     IN {c[i] : i \in {j \in DOMAIN c : j <= NConcrete}}
AliasVals(ph) == IF Raw.accept[ph].any THEN {}
                 ELSE LET al == {t \in ToSet(Raw.accept[ph].toks) : IsAlias(t)}
                      IN IF al = {} THEN {} ELSE {CHOOSE t \in al : TRUE}
Vals(ph) == Concrete(ph) \cup {s \in Symbols : Accepts(ph, s)} \cup AliasVals(ph)
\* every string of the family, per template: the product of the per-placeholder value sets
Strings(i) == SetProd([j \in DOMAIN Templates[i].ph |-> Vals(Templates[i].ph[j])])
AllStrings == UNION {Strings(i) : i \in TIdx}
QSafe(segs) == \A j \in DOMAIN segs : segs[j] \in ToSet(Raw.qsafe)
EmptyValued(i) == LET f == [j \in DOMAIN Templates[i].ph |-> IF Raw.accept[Templates[i].ph[j]].any THEN "" ELSE
                                   (CHOOSE v \in Concrete(Templates[i].ph[j]) : TRUE)]
                  IN IF \E j \in DOMAIN f : f[j] = "" THEN {f} ELSE {}
SidCall(segs) == [op |-> "sid", uri |-> <<>>, segs |-> segs, query |-> <<>>]
\* names that are prefixes of one another and continue with characters below '/' ('oph', 'oph-x', 'gertrude.b', 'rain+'),
\* at the level of the name and one level deeper: where whole-string order and part-by-part order disagree
OpenNamed(i) == UNION {{SubSeq([FirstString(i) EXCEPT ![j] = Raw.open_values[n]], 1, m) : n \in 2..6, m \in {j, j + 1} \cap (1..Len(Templates[i].ph))} :
                          j \in {jj \in DOMAIN Templates[i].ph : Raw.accept[Templates[i].ph[jj]].any}}
Junk == { <<"junk">>, <<"hamlet", "zz">>, <<>>, <<"junk", "a", "char">>, <<"", "">> }

(* ---- C04 overlays ---- *)
AllKeys == UNION {TKeys(i) : i \in TIdx}
ValidFor(k) == LET phs == {Templates[i].ph[j] : i \in TIdx, j \in 1..1} IN
               CHOOSE v \in UNION {UNION {IF PhKey(Templates[i].ph[j]) = k THEN Concrete(Templates[i].ph[j]) ELSE {} :
                                           j \in DOMAIN Templates[i].ph} : i \in TIdx} : TRUE
\* keys chosen relative to the base Sid: last, first, deeper keys of extending templates, foreign keys
DeeperKeys(x, n) == {TKeySeq(i)[Len(x.fields) + n] : i \in {j \in TIdx : Len(Templates[j].ph) >= Len(x.fields) + n
                                                            /\ Templates[j].base = BaseOfName(x.type)}}
OtherBaseKeys(x) == {k \in AllKeys : \A i \in TIdx : Templates[i].base = BaseOfName(x.type) => k \notin TKeys(i)}
KeyChoices(x) == {x.fields[Len(x.fields)][1], x.fields[1][1]} \cup DeeperKeys(x, 1) \cup DeeperKeys(x, 2)
                 \cup {"foo"} \cup (IF OtherBaseKeys(x) = {} THEN {} ELSE {CHOOSE k \in OtherBaseKeys(x) : TRUE})
ValChoices(k) == IF k = "foo" THEN {"bar", "*"}
                 ELSE {ValidFor(k), "zz", "*", ">", "~" \o ValidFor(k), "~zz"}
PairChoices(x) == UNION {{<<k, v>> : v \in ValChoices(k)} : k \in KeyChoices(x)}
RECURSIVE SeqsUpTo(_, _)
SeqsUpTo(S, n) == IF n = 0 THEN {<<>>} ELSE SeqsUpTo(S, n - 1) \cup {Append(p, x) : p \in {q \in SeqsUpTo(S, n - 1) : Len(q) = n - 1}, x \in S}
Overlays(x) == SeqsUpTo(PairChoices(x), MaxPairs) \ {<<>>}
KwChoices(x) == PairChoices(x) \cup {<<k, None>> : k \in KeyChoices(x)}
KwOverlays(x) == {kw \in (SeqsUpTo(KwChoices(x), MaxPairs) \ {<<>>}) : DistinctKeys(kw)}

\* Two levels so that TLC's workers share the enumeration: Init seeds one state per template,
\* Next expands a seed into the calls of that template.
StringsOf(i) == Strings(i) \cup (IF i = 1 THEN Junk ELSE {})
CallsOf(i) ==
  IF Family = "forms" THEN
     {[op |-> "forms", uri |-> <<>>, segs |-> s, query |-> <<>>, qsafe |-> QSafe(s), seed |-> Len(s)] : s \in Strings(i)}
  ELSE IF Family = "nav" THEN
     {[op |-> "nav", uri |-> <<>>, segs |-> s, query |-> <<>>, via |-> via, seed |-> Len(s), foreign |-> <<"foo", "node">>] :
         s \in StringsOf(i), via \in {"string", "uri", "fields_shuffled", "query_shuffled", "getwith", "path"}}
     \* the same string under every other type that accepts it (forced by a uri): navigation must depend on the type
     \cup UNION {{[op |-> "nav", uri |-> <<Templates[j].name>>, segs |-> s, query |-> <<>>, via |-> "string", seed |-> Len(s), foreign |-> <<"foo", "node">>] :
                    j \in AllTypesOf(s) \ {MinOf(AllTypesOf(s))}} : s \in {x \in Strings(i) : Cardinality(AllTypesOf(x)) > 1}}
     \* typed Sids whose unrestricted keys hold the EMPTY value (a query cannot carry an empty value, a path cannot hold an
     \* empty component: those two constructors are left out)
     \cup {[op |-> "nav", uri |-> <<>>, segs |-> s, query |-> <<>>, via |-> via, seed |-> Len(s), foreign |-> <<"foo", "node">>] :
         s \in EmptyValued(i), via \in {"string", "uri", "fields_shuffled", "getwith"}}
  ELSE IF Family = "query" THEN
     UNION {{[op |-> "query", uri |-> <<>>, segs |-> s, mode |-> mode, pairs |-> ov] :
                mode \in {"trailing", "getwith_query"}, ov \in Overlays(MkFromString(SidCall(s)))} : s \in Strings(i)}
  ELSE IF Family = "getwith" THEN
     UNION {{[op |-> "getwith", uri |-> <<>>, segs |-> s, mode |-> mode, kw |-> kw] :
                mode \in {"kw", "kv"}, kw \in {k \in KwOverlays(MkFromString(SidCall(s))) : TRUE}} : s \in Strings(i)}
  ELSE \* eqlaws: pairs (s1 from template i, s2 from anywhere), natural and forced (last matching type) variants
     LET ty(s, u) == IF u = 0 \/ AllTypesOf(s) = {} THEN <<>> ELSE <<Templates[MaxOf(AllTypesOf(s))].name>> IN
     {[op |-> "eqlaws", a |-> [op |-> "sid", uri |-> ty(s1, u1), segs |-> s1, query |-> <<>>],
                        b |-> [op |-> "sid", uri |-> ty(s2, u2), segs |-> s2, query |-> <<>>]] :
         s1 \in StringsOf(i), s2 \in (IF Symbols = {} /\ NConcrete = 1 THEN AllStrings ELSE Strings(i)) \cup Junk, u1 \in {0, 1}, u2 \in {0, 1}}
     \cup {[op |-> "eqlaws", a |-> [op |-> "sid", uri |-> <<>>, segs |-> s1, query |-> <<>>],
                             b |-> [op |-> "sid", uri |-> <<>>, segs |-> s2, query |-> <<>>]] :
         s1 \in OpenNamed(i), s2 \in OpenNamed(i)}
     \* Sids that keep an unapplied query in their string: same type and fields as the plain Sid, another uri
     \cup {[op |-> "eqlaws", a |-> [op |-> "sid", uri |-> <<>>, segs |-> s1, query |-> q1],
                             b |-> [op |-> "sid", uri |-> <<>>, segs |-> s1, query |-> q2]] :
         s1 \in {FirstString(i)}, q1 \in {<<>>, << <<"foo", "bar">> >>}, q2 \in {<< <<"foo", "bar">> >>, << <<"foo", "baz">> >>, << <<LastKey(i), "zz">> >>}}
Init == \E i \in TIdx : call = [op |-> "seed", t |-> i]
Next == call.op = "seed" /\ \E c \in CallsOf(call.t) : (c.op = "getwith" /\ c.mode = "kv" => Len(c.kw) = 1) /\ call' = c
Spec == Init /\ [][Next]_vars

(* ---------------- theorems checked on every state ---------------- *)
IsCall == call.op # "seed"
X == MkFromString(SidCall(call.segs))
\* C02
Canonical == IsCall /\ Family = "forms" => (X.type # "" /\ X.string = JoinStr(DVals(X.fields), "/"))
DictFirstIsNatural == IsCall /\ Family = "forms" => MkFromFields(X.fields) = X
DictOrderIrrelevant == IsCall /\ Family = "forms" => MkFromFields(Reverse(X.fields)) = X
UriRoundTrip == IsCall /\ Family = "forms" => MkFromString([op |-> "sid", uri |-> <<X.type>>, segs |-> DVals(X.fields), query |-> <<>>]) = X
QueryRoundTrip == IsCall /\ Family = "forms" => MkFromQuery(AsQuery(X)) = X
\* C03
PrefixClosed == IsCall /\ Family = "nav" /\ X.type # "" =>
   \A n \in DOMAIN X.fields :
      LET g == GetAs(X, X.fields[n][1]) IN
         /\ g.type # "" /\ g.fields = SubSeq(X.fields, 1, n)
         /\ g.string = JoinStr(SubSeq(DVals(X.fields), 1, n), "/")
ParentLaws == IsCall /\ Family = "nav" /\ X.type # "" =>
   /\ (Len(X.fields) > 1 => /\ Parent(X) = GetAs(X, X.fields[Len(X.fields) - 1][1])
                            /\ Len(Parent(X).fields) = Len(X.fields) - 1
                            /\ Div(Parent(X), X.fields[Len(X.fields)][2]) = X)
   /\ (Len(X.fields) = 1 => Parent(X) = X)
   /\ KeyType(X) = X.fields[Len(X.fields)][1]
   /\ StrStarts(X.type, BaseType(X))
\* C04
QB == MkFromString([op |-> "sid", uri |-> <<>>, segs |-> call.segs, query |-> <<>>])
AllOrNothing == IsCall /\ Family = "query" =>
   LET r == ApplyQueryB(QB, call.pairs)  ov == Update(QB.fields, QueryPairs(call.pairs)) IN
      \/ (r.type = QB.type /\ r.fields = QB.fields /\ r.q # <<>> /\ StrContains(r.string, "?"))
      \/ (r.q = <<>> /\ r.type # "" /\ ToSet(r.fields) = ToSet(ov) /\ r.string = JoinStr(DVals(r.fields), "/")
            /\ DKeySeq(r.fields) = TKeySeq(IdxOf(r.type)))
OptionalNeverAdds == IsCall /\ Family = "query" =>
   LET ov == Update(QB.fields, QueryPairs(call.pairs)) IN
      \A k \in DKeys(ov) \ DKeys(QB.fields) : \E i \in DOMAIN call.pairs : call.pairs[i][1] = k /\ ~IsOpt(call.pairs[i][2])
GetWithExact == IsCall /\ Family = "getwith" =>
   LET g == GetWithKw(QB, call.kw) IN g.res.type = "" \/ ToSet(g.res.fields) = ToSet(g.overlay)
=============================================================================
