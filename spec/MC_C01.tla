------------------------------ MODULE MC_C01 ------------------------------
(* C01: the family of strings is the state space.  A state is ONE call      *)
(* Sid(string) in structured form; Init picks a base string for every      *)
(* template (value assignments from the vocabulary), Next applies one more *)
(* edit.  TLC checks the typing rule on every state and dumps the states;  *)
(* every dumped state is then executed against the implementation.         *)
EXTENDS Spil
CONSTANTS MaxEdits,      \* edits applied on top of a base string
          PickN,         \* values tried per placeholder for base strings
          MaxSegs
VARIABLES call, edits
vars == <<call, edits>>

CONSTANT FullVocab       \* TRUE: edits draw from the whole vocabulary, FALSE: from the small edit vocabulary
Vocab == IF FullVocab THEN ToSet(Raw.vocab) ELSE ToSet(Raw.edit_vocab)
Pick(ph) == IF Raw.accept[ph].any THEN {Raw.open_values[1]}
            ELSE {Raw.accept[ph].toks[i] : i \in {j \in DOMAIN Raw.accept[ph].toks : j <= PickN}}
CONSTANT ProductBases    \* TRUE: full product of the picked values; FALSE: first values + single substitutions
FirstOf(ph) == IF Raw.accept[ph].any THEN Raw.open_values[1] ELSE Raw.accept[ph].toks[1]
BaseSegs(i) == IF ProductBases THEN SetProd([j \in DOMAIN Templates[i].ph |-> Pick(Templates[i].ph[j])])
               ELSE LET first == [j \in DOMAIN Templates[i].ph |-> FirstOf(Templates[i].ph[j])]
                    IN {first} \cup UNION {{[first EXCEPT ![j] = v] : v \in Pick(Templates[i].ph[j])} : j \in DOMAIN first}
UriNames == TypeNames \cup {"nosuchtype", ""}

Init == /\ edits = 0
        /\ \E i \in TIdx : \E f \in BaseSegs(i) : call = [op |-> "sid", uri |-> <<>>, segs |-> f, query |-> <<>>]
Replace == \E i \in DOMAIN call.segs, tok \in Vocab : call' = [call EXCEPT !.segs[i] = tok]
AppendSeg == \E tok \in Vocab : Len(call.segs) < MaxSegs /\ call' = [call EXCEPT !.segs = Append(@, tok)]
DropLast == call.segs # <<>> /\ call' = [call EXCEPT !.segs = Front(@)]
DropFirst == call.segs # <<>> /\ call' = [call EXCEPT !.segs = Tail(@)]
Duplicate == \E i \in DOMAIN call.segs : Len(call.segs) < MaxSegs /\
                call' = [call EXCEPT !.segs = SubSeq(@, 1, i) \o SubSeq(@, i, Len(@))]
Prefix == \E ty \in UriNames : Len(call.uri) < 3 /\ call' = [call EXCEPT !.uri = <<ty>> \o @]
\* any number of ':' : two and three prefixes prepended in one edit
Prefix2 == \E t1, t2 \in {"", "nosuchtype", Templates[1].name} : call.uri = <<>> /\ call' = [call EXCEPT !.uri = <<t1, t2>>]
Prefix3 == \E t1 \in {"", Templates[1].name} : call.uri = <<>> /\ call' = [call EXCEPT !.uri = <<t1, "x", "">>]
Edit == Prefix2 \/ Prefix3 \/ Replace \/ AppendSeg \/ DropLast \/ DropFirst \/ Duplicate \/ Prefix
Next == edits < MaxEdits /\ Edit /\ edits' = edits + 1
Spec == Init /\ [][Next]_vars

E == MkFromString(call)
Natural == call.uri = <<>> \/ (Len(call.uri) = 1 /\ call.uri[1] = "")
TypedShape == E.type # "" =>
                 /\ Len(E.fields) = Len(EffSegs(call))
                 /\ DVals(E.fields) = EffSegs(call)
                 /\ DKeySeq(E.fields) = TKeySeq(IdxOf(E.type))
                 /\ \A j \in DOMAIN E.fields : Accepts(Templates[IdxOf(E.type)].ph[j], E.fields[j][2])
                 /\ E.string = JoinStr(EffSegs(call), "/")
UntypedShape == E.type = "" => E.fields = <<>> /\ E.string = JoinStr(EffSegs(call), "/")
FirstWins == (Natural /\ E.type # "") => \A i \in TIdx : Matches(i, EffSegs(call)) => IdxOf(E.type) <= i
TypedIffSomeMatch == Natural => (E.type # "" <=> \E i \in TIdx : Matches(i, EffSegs(call)) /\ EffSegs(call) # <<"">>)
ForcedOnly == ~Natural => E.type \in {"", call.uri[1]}
=============================================================================
