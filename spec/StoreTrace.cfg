INIT TrInit
NEXT TrNext
CONSTANTS MaxSteps = 1000
POSTCONDITION Accepted
CHECK_DEADLOCK FALSE
