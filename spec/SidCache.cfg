SPECIFICATION Spec
CONSTANTS Clients = {"c1", "c2"}
          MaxData = 3
          WarmerMayCrash = TRUE
INVARIANT TypeOK
INVARIANT NeverInvented
INVARIANT FileNeverInvented
PROPERTY WarmupEnds
PROPERTY LockNotForever
CHECK_DEADLOCK FALSE
