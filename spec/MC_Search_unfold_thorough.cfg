SPECIFICATION Spec
CONSTANTS Family = "unfold"
          MaxEdits = 3
          UnivKinds = {"complete", "leafonly", "noisy"}
          GtFirst = FALSE
          WithGt = TRUE
INVARIANT UnfoldIsDenote
INVARIANT ErrorOnlyWhenDenoted
INVARIANT AllTypedAndMatching
INVARIANT NoDoubleStarLeft
INVARIANT LeafOnlyAfterExpand
INVARIANT FindSubset
INVARIANT GtOnePerGroup
CHECK_DEADLOCK FALSE
