"""Probe the routing tables of the data configuration (spil_data_conf.get_finder_for /
get_getter_for) type by type, on a dummy object that only has a `.type`.  Configuration data only:
class names and constructor arguments of what the configuration returns.

usage: probe_routing.py <conf.json>   (updates it in place: keys 'routing', 'getters')
"""
import sys, json
import spil  # noqa
from spil import conf as sconf

path = sys.argv[1]
conf = json.load(open(path))


class Dummy:
    def __init__(self, t):
        self.type = t


def describe(f, depth=0):
    if f is None:
        return dict(cls='')
    d = dict(cls=type(f).__name__)
    if d['cls'] == 'FindInConstants':
        d.update(key=f.key, values=list(f.values), parent=describe(f.parent_source, depth + 1))
    elif d['cls'] == 'FindInPaths':
        d.update(config=f.config_name)
    return d


types = list(sconf.sid_templates.keys())
routing = []
for t in types + ['%default']:
    f = sconf.get_finder_for(Dummy(t if t != '%default' else 'no_such_type'))
    routing.append(dict(type=t, finder=describe(f)))
getters = []
for t in types:
    g = sconf.get_getter_for(Dummy(t))
    getters.append(dict(type=t, getter=(type(g).__name__ if g is not None else ''),
                        config=getattr(g, 'config', '') if g is not None else ''))
conf['routing'] = routing
conf['getters'] = getters
json.dump(conf, open(path, 'w'), indent=1)
print(json.dumps(dict(routing=len(routing), getters=len(getters))))
