"""Derive configuration PACKAGES from the shipped demo configuration (C20).

Purely textual rewriting of a copy of the configuration modules: nothing of spil is imported.
usage: gen_conf.py <src conf dir> <variant> <out dir>
"""
import sys, os, re, shutil

VARIANTS = ['third_path_config', 'leaf_extrapolation', 'rename_keys', 'rename_types', 'separators', 'insert_level', 'renamed_everything', 'all_changes']


def sub_all(text, pairs):
    for a, b in pairs:
        text = text.replace(a, b)
    return text


def rename_keys(t):
    t = sub_all(t, [('sequence', 'episode'), ('shot', 'cut'), ('task', 'step'), ('state', 'status'), ('node', 'part')])
    # the leaf key 'ext' (not the words 'extension', 'extrapolate', ...)
    t = t.replace('{ext', '{fmt').replace("'ext'", "'fmt'").replace('"ext"', '"fmt"')
    return t


def rename_type_key(t):
    """the key that discriminates the basetypes is not called 'type' (applied last, after every other rewrite)"""
    return sub_all(t, [('{type:', '{kind:'), ('{type}', '{kind}'), ("'type'", "'kind'"), ('"type"', '"kind"'), ('type=~', 'kind=~')])


def rename_types(t):
    t = sub_all(t, [('asset', 'entity'), ('hamlet', 'macbeth'), ('HAMLET', 'MACBETH'), ('macbeth_plugins', 'hamlet_plugins')])
    t = sub_all(t, [('{type:a}', '{type:x}'), (r'{type:(a|\*|\>)}', r'{type:(x|\*|\>)}'), ("'ASSETS': 'a'", "'ASSETS': 'x'"),
                    ('["a", "s"]', '["x", "s"]'), ("'type=~a'", "'type=~x'")])
    return t


def separators(t):
    t = t.replace('}_{', '}-{')
    t = sub_all(t, [('/PROD/', '/PRODUCTION/'), ('/OUTPUT/', '/OUT/'), ('/EXPORT/', '/EXP/')])
    return t


def insert_level(t, name):
    if name == 'spil_sid_conf.py':
        # a new level 'unit' under the shot type
        t = t.replace("{project}/{type:s}/{sequence}", "{project}/{type:s}/{unit}/{sequence}")
        t = t.replace("'shot': ['project', 'type', 'sequence'", "'shot': ['project', 'type', 'unit', 'sequence'")
    if name == 'spil_fs_conf.py':
        t = t.replace("{type:SHOTS}/{sequence}", "{type:SHOTS}/{unit}/{sequence}")
        t = t.replace("    'shot':                    '{@project_root}/{project}/PROD/{type:SHOTS}',",
                      "    'shot__unit':              '{@project_root}/{project}/PROD/{type:SHOTS}/{unit}',\n"
                      "    'shot':                    '{@project_root}/{project}/PROD/{type:SHOTS}',")
    return t


def insert_level_renamed(t, name):
    """insert_level on a text that already went through the renamings"""
    if name == 'spil_sid_conf.py':
        t = t.replace("{project}/{type:s}/{episode}", "{project}/{type:s}/{unit}/{episode}")
        t = t.replace("'cut': ['project', 'type', 'episode'", "'cut': ['project', 'type', 'unit', 'episode'")
    if name == 'spil_fs_conf.py':
        t = t.replace("{type:SHOTS}/{episode}", "{type:SHOTS}/{unit}/{episode}")
        t = t.replace("    'cut':                    '{@project_root}/{project}/PRODUCTION/{type:SHOTS}',",
                      "    'cut__unit':              '{@project_root}/{project}/PRODUCTION/{type:SHOTS}/{unit}',\n"
                      "    'cut':                    '{@project_root}/{project}/PRODUCTION/{type:SHOTS}',")
    return t


def third_path_config(out):
    """a third, self-contained path configuration 'archive' with its own root and its own value mapping for the state key"""
    t = open(os.path.join(out, 'spil_fs_conf.py')).read()
    t = t.replace('"LOCAL"', '"ARCHIVE"')
    t = t.replace("key_patterns = key_patterns.copy()", "import copy\nkey_patterns = copy.deepcopy(key_patterns)")
    t = t.replace("'WORK'", "'WIP'").replace("'PUBLISH'", "'PUB'").replace('(WORK|PUBLISH|', '(WIP|PUB|').replace('(PUBLISH|', '(PUB|').replace('(WORK|', '(WIP|')
    open(os.path.join(out, 'spil_fs_archive_conf.py'), 'w').write(t)
    d = open(os.path.join(out, 'spil_data_conf.py')).read()
    d = d.replace("'server': 'spil_fs_server_conf'", "'server': 'spil_fs_server_conf',\n                'archive': 'spil_fs_archive_conf'")
    open(os.path.join(out, 'spil_data_conf.py'), 'w').write(d)


def main():
    src, variant, out = sys.argv[1:4]
    os.makedirs(out, exist_ok=True)
    for name in sorted(os.listdir(src)):
        p = os.path.join(src, name)
        if os.path.isdir(p):
            if name in ('hamlet_plugins', 'hamlet_scripts'):
                shutil.copytree(p, os.path.join(out, name), ignore=shutil.ignore_patterns('__pycache__'), dirs_exist_ok=True)
                if name == 'hamlet_plugins' and variant in ('rename_keys', 'renamed_everything'):
                    pass      # the NextGetter plugin works on the key 'version', which is not renamed
            continue
        if not name.endswith('.py'):
            continue
        t = open(p).read()
        if name in ('spil_sid_conf.py', 'spil_fs_conf.py', 'spil_fs_server_conf.py', 'spil_data_conf.py'):
            if variant in ('rename_keys', 'renamed_everything', 'all_changes'):
                t = rename_keys(t)
            if variant in ('rename_types', 'renamed_everything', 'all_changes'):
                t = rename_types(t)
            if variant in ('separators', 'renamed_everything', 'all_changes'):
                t = separators(t)
            if variant == 'insert_level':
                t = insert_level(t, name)
            if variant == 'all_changes':
                t = insert_level_renamed(t, name)
            if variant in ('all_changes', 'leaf_extrapolation') and name == 'spil_sid_conf.py':
                # extrapolation starts at the leaf types while the state templates stay explicitly configured
                t = re.sub(r"to_extrapolate = \['(\w+)__(state|status)', '(\w+)__(state|status)'\]",
                           r"to_extrapolate = ['\1__file', '\3__file']", t)
            if variant in ('rename_keys', 'renamed_everything', 'all_changes'):
                t = rename_type_key(t)
        open(os.path.join(out, name), 'w').write(t)
    if variant in ('all_changes', 'third_path_config'):
        third_path_config(out)
    print('generated', variant, 'in', out)


if __name__ == '__main__':
    main()
