"""Shared plumbing of the spil verification framework (stdlib only).

Nothing in here knows any spil semantics: it creates the scratch environment, runs the
real spil in subprocesses, runs TLC, parses TLC output, and writes evidence / replays.
"""
from __future__ import annotations
import atexit, hashlib, json, os, re, shutil, subprocess, sys, tempfile, time

VERIF = os.path.dirname(os.path.dirname(os.path.abspath(__file__)))
SPEC = os.path.join(VERIF, 'spec')
HARNESS = os.path.join(VERIF, 'harness')
REPO = os.environ.get('SPIL_REPO', '/repo')
PY = os.environ.get('SPIL_PYTHON', '/venv/bin/python')
TLA_JAR = '/opt/veriftools/tla/tla2tools.jar'
TLA_CP = TLA_JAR + ':/opt/veriftools/tla/CommunityModules-deps.jar'
SEED = int(os.environ.get('VERIF_SEED', '0') or 0)


class Machinery(Exception):
    """Failure of the verification machinery itself (exit code 2, never a violation)."""


# --------------------------------------------------------------------------- scratch
_scratch = []


def scratch(prefix='spilverif-'):
    d = tempfile.mkdtemp(prefix=prefix)
    _scratch.append(d)
    return d


@atexit.register
def _cleanup():
    if os.environ.get('VERIF_KEEP'):
        for d in _scratch:
            sys.stderr.write('kept scratch %s\n' % d)
        return
    for d in _scratch:
        shutil.rmtree(d, ignore_errors=True)


class Env:
    """A fresh copy of the repository's configuration package in a scratch directory.

    The shipped path configurations derive their roots from Path(__file__), so every file
    tree a check creates lands inside the scratch directory; /repo's own example tree is
    never touched.  `confdir` may be replaced by a generated configuration (C20).
    """

    def __init__(self, repo=None, confsrc=None):
        self.repo = repo or REPO
        self.dir = scratch()
        self.confdir = os.path.join(self.dir, 'conf')
        src = confsrc or os.environ.get('SPIL_CONFSRC') or os.path.join(self.repo, 'spil_hamlet_conf')
        os.makedirs(self.confdir)
        for name in os.listdir(src):
            p = os.path.join(src, name)
            if name.endswith('.py'):
                shutil.copy(p, self.confdir)
            elif name in ('hamlet_plugins', 'hamlet_scripts') and os.path.isdir(p):
                shutil.copytree(p, os.path.join(self.confdir, name),
                                ignore=shutil.ignore_patterns('__pycache__'))
        # the example sid list (read-only input for drivers)
        ex = os.path.join(src, 'data', 'testing', 'hamlet.sids.txt')
        os.makedirs(os.path.join(self.confdir, 'data', 'testing'), exist_ok=True)
        if os.path.exists(ex):
            shutil.copy(ex, os.path.join(self.confdir, 'data', 'testing'))
        self.home = os.path.join(self.dir, 'home')
        os.makedirs(self.home)
        self.work = os.path.join(self.dir, 'work')
        os.makedirs(self.work)

    def environ(self, hashseed=0, hooks=True, extra=None):
        e = dict(os.environ)
        e['PYTHONPATH'] = os.pathsep.join([self.confdir, self.repo, HARNESS])
        e['HOME'] = self.home
        e['PYTHONHASHSEED'] = str(hashseed)
        e['PYTHONDONTWRITEBYTECODE'] = '1'
        e['PYTHONWARNINGS'] = 'ignore'
        if hooks:
            e['SPIL_VERIF'] = '1'
        else:
            e.pop('SPIL_VERIF', None)
        if extra:
            e.update(extra)
        return e

    def run(self, script, args=(), hashseed=0, hooks=True, extra=None, timeout=3600, stdin=None,
            check=True):
        """Run harness/<script> with the real spil importable.  Returns CompletedProcess."""
        cmd = [PY, os.path.join(HARNESS, script)] + [str(a) for a in args]
        p = subprocess.run(cmd, env=self.environ(hashseed, hooks, extra), cwd=self.work,
                           capture_output=True, text=True, timeout=timeout, input=stdin)
        if check and p.returncode != 0:
            raise Machinery('%s failed (%d):\n%s\n%s' % (script, p.returncode, p.stdout[-3000:], p.stderr[-3000:]))
        return p

    def root(self, cfg):
        sub = {'local': 'LOCAL', 'server': 'SERVER'}[cfg]
        return os.path.join(self.confdir, 'data', 'testing', 'SPIL_PROJECTS', sub, 'PROJECTS')


# --------------------------------------------------------------------------- TLC
class TlcResult:
    def __init__(self, rc, out, wall):
        self.rc, self.out, self.wall = rc, out, wall
        m = re.search(r'(\d+) states generated, (\d+) distinct states found', out)
        self.generated = int(m.group(1)) if m else 0
        self.distinct = int(m.group(2)) if m else 0
        # -simulate runs report differently
        m2 = re.search(r'The number of states generated: (\d+)', out)
        if m2 and not m:
            self.generated = self.distinct = int(m2.group(1))
        self.violation = ('is violated' in out) or ('Invariant' in out and 'violated' in out)
        self.error = 'Error:' in out

    def printed(self):
        """Values printed by PrintT, parsed.  Handles multi-line values by bracket matching."""
        vals = []
        buf, depth = '', 0
        for line in self.out.splitlines():
            if depth == 0:
                if not (line.startswith('<<') or line.startswith('[') or line.startswith('"')):
                    continue
                buf = ''
            buf += line + '\n'
            depth = _depth(buf)
            if depth == 0:
                try:
                    vals.append(parse_tla(buf))
                except Exception:
                    pass
                buf = ''
        return vals


def _depth(s):
    d, i, n, instr = 0, 0, len(s), False
    while i < n:
        c = s[i]
        if instr:
            if c == '\\':
                i += 1
            elif c == '"':
                instr = False
        elif c == '"':
            instr = True
        elif s.startswith('<<', i):
            d += 1; i += 1
        elif s.startswith('>>', i):
            d -= 1; i += 1
        elif c in '[{(':
            d += 1
        elif c in ']})':
            d -= 1
        i += 1
    return d


def tlc(module, cfg, env=None, workers=16, timeout=1800, extra=(), metadir=None, cwd=SPEC,
        deque=False, heap='8g'):
    """Run TLC on spec/<module>.tla with spec/<cfg>; returns TlcResult. Always under a timeout."""
    md = metadir or scratch('tlcmeta-')
    jopts = ['-XX:+UseParallelGC', '-Xmx' + heap, '-Xss64m']
    if deque:
        jopts.append('-Dtlc2.tool.queue.IStateQueue=StateDeque')
    cmd = ['java'] + jopts + ['-cp', TLA_CP, 'tlc2.TLC', '-workers', str(workers), '-metadir', md,
                              '-noGenerateSpecTE', '-config', cfg] + list(extra) + [module]
    e = dict(os.environ)
    if env:
        e.update({k: str(v) for k, v in env.items()})
    t0 = time.time()
    try:
        p = subprocess.run(cmd, cwd=cwd, env=e, capture_output=True, text=True, timeout=timeout)
    except subprocess.TimeoutExpired as ex:
        subprocess.run(['pkill', '-f', md], capture_output=True)
        raise Machinery('TLC timeout after %ss on %s/%s' % (timeout, module, cfg))
    finally:
        if not metadir:
            shutil.rmtree(md, ignore_errors=True)
    r = TlcResult(p.returncode, p.stdout + p.stderr, time.time() - t0)
    return r


def tlc_ok(r, what):
    """TLC finished without error; anything else is machinery failure unless the caller
    handles r.violation itself."""
    if r.rc != 0 or 'Model checking completed. No error has been found' not in r.out and \
            'Finished in' not in r.out:
        raise Machinery('TLC failed on %s (rc=%s):\n%s' % (what, r.rc, r.out[-4000:]))


# --------------------------------------------------------------------------- TLA+ values
_TOK = re.compile(r'\s*(<<|>>|\[|\]|\{|\}|\(|\)|\|->|:>|@@|,|"(?:[^"\\]|\\.)*"|-?\d+|[A-Za-z_][A-Za-z0-9_]*)')


def _tokenize(s):
    pos, out = 0, []
    n = len(s)
    while True:
        m = _TOK.match(s, pos)
        if not m:
            if s[pos:].strip():
                raise ValueError('bad token at %r' % s[pos:pos + 40])
            return out
        out.append(m.group(1))
        pos = m.end()


def _unq(x):
    body = x[1:-1]
    if '\\' not in body:
        return body
    return re.sub(r'\\(.)', lambda m: {'n': '\n', 't': '\t', 'r': '\r', 'f': '\f'}.get(m.group(1), m.group(1)), body)


def parse_tla(s):
    toks = _tokenize(s)
    v, i = _val(toks, 0)
    if i != len(toks):
        raise ValueError('trailing tokens')
    return v


def _val(t, i):
    x = t[i]
    if x == '<<':
        i += 1
        out = []
        while t[i] != '>>':
            v, i = _val(t, i)
            out.append(v)
            if t[i] == ',':
                i += 1
        return out, i + 1
    if x == '{':
        i += 1
        out = []
        while t[i] != '}':
            v, i = _val(t, i)
            out.append(v)
            if t[i] == ',':
                i += 1
        return {'__set__': out}, i + 1
    if x == '[':
        i += 1
        d = {}
        while t[i] != ']':
            k = t[i]
            assert t[i + 1] == '|->', t[i:i + 3]
            v, i = _val(t, i + 2)
            d[k] = v
            if t[i] == ',':
                i += 1
        return d, i + 1
    if x == '(':
        # function literal  (a :> b @@ c :> d)
        i += 1
        d = []
        while t[i] != ')':
            k, i = _val(t, i)
            assert t[i] == ':>'
            v, i = _val(t, i + 1)
            d.append([k, v])
            if t[i] == '@@':
                i += 1
        return {'__fun__': d}, i + 1
    if x.startswith('"'):
        return _unq(x), i + 1
    if x in ('TRUE', 'FALSE'):
        return x == 'TRUE', i + 1
    if re.fullmatch(r'-?\d+', x):
        return int(x), i + 1
    return {'__id__': x}, i + 1


def dump_states(path):
    """Yield {var: value} for each state of a TLC -dump file."""
    cur = []
    with open(path) as f:
        for line in f:
            if line.startswith('State '):
                if cur:
                    yield _state(cur)
                cur = []
            elif line.strip():
                cur.append(line)
    if cur:
        yield _state(cur)


def _state(lines):
    txt = ''.join(lines)
    parts = re.split(r'(?m)^/\\ ', txt)
    out = {}
    for p in parts:
        if not p.strip():
            continue
        name, val = p.split('=', 1)
        out[name.strip()] = parse_tla(val)
    return out


# --------------------------------------------------------------------------- wire encoding
_SAFE = set(chr(c) for c in range(32, 127)) - set('%"\\')


def enc(s):
    """percent-encode everything outside printable ASCII (and % " \\) - the TLC boundary is ASCII."""
    if s is None:
        return None
    return ''.join(ch if ch in _SAFE else ''.join('%%%02X' % b for b in ch.encode('utf-8')) for ch in str(s))


def dec(s):
    if '%' not in s:
        return s
    out = bytearray()
    i, b = 0, s.encode('ascii')
    while i < len(b):
        if b[i] == 0x25 and i + 2 < len(b) + 0 and re.fullmatch(rb'[0-9A-Fa-f]{2}', b[i + 1:i + 3] or b''):
            out.append(int(b[i + 1:i + 3], 16))
            i += 3
        else:
            out.append(b[i])
            i += 1
    return out.decode('utf-8', 'replace')


# --------------------------------------------------------------------------- evidence, findings, replays
def load_findings():
    p = os.path.join(VERIF, 'known_findings.json')
    if not os.path.exists(p):
        return []
    return json.load(open(p)).get('findings', [])


def write_replay(pid, payload):
    d = os.path.join(VERIF, 'replays')
    os.makedirs(d, exist_ok=True)
    blob = json.dumps(payload, indent=1, sort_keys=True, default=str)
    h = hashlib.sha1(blob.encode()).hexdigest()[:12]
    path = os.path.join(d, '%s-%s.json' % (pid, h))
    with open(path, 'w') as f:
        f.write(blob)
    return path


def write_evidence(pid, tier, level, coverage, wall, violations, assumptions):
    evdir = os.environ.get('VERIF_EVIDENCE_DIR') or os.path.join(VERIF, 'evidence')
    os.makedirs(evdir, exist_ok=True)
    ev = dict(property_id=pid, tier=tier, seed=SEED, level=level, coverage=coverage,
              assumptions=assumptions, wall_s=round(wall, 2), violations=violations)
    with open(os.path.join(evdir, pid + '.json'), 'w') as f:
        json.dump(ev, f, indent=1, default=str)
    return ev
