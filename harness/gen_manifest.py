"""Writes /verif/MANIFEST.json from the table below (kept next to the drivers it describes)."""
import json, os, subprocess
V = os.path.dirname(os.path.dirname(os.path.abspath(__file__)))
props = [json.loads(l) for l in open(os.path.join(V, 'properties.jsonl'))]
TRUST = ('TLC + CommunityModules; Accept relation = Python re.fullmatch(pattern, token) on single segments over the '
         'extracted vocabulary; the wire renderer / TLA value parser of harness/ (exercised by ./check selftest); '
         'bounds are the constants of the named spec/MC_*.cfg')
C = {
 'C01': dict(tech='TLC model checking of MC_C01 (typing invariants over bases x edits) + dump replay into Sid() + TLC trace validation (PureTrace: SidClauses)',
             text='TLC checks TypedShape / UntypedShape / FirstWins / TypedIffSomeMatch / ForcedOnly on every string of the family and dumps the family; every string is given to the real Sid() and the recorded (type, fields, string, bool, len, raise) is validated by TLC against MkFromString of spec/Spil.tla, which derives the template list itself from the raw configuration.',
             ref='5 (C01)'),
 'C02': dict(tech='TLC model checking of MC_Core[forms] (Canonical, DictFirstIsNatural, round-trip theorems) + replay of 10+ constructors + TLC trace validation',
             text='The theorems that make the forms agree (canonical string, first dictionary type = natural type, key order irrelevant, uri and query round trips) are checked by TLC on every typed string of the product family; the implementation is then driven through uri / fields in several orders / query / repr / copy and each result validated against the spec triple.', ref='5 (C02)'),
 'C03': dict(tech='TLC model checking of MC_Core[nav] (PrefixClosed, ParentLaws) + replay through 6 constructors + TLC trace validation (NavClauses)',
             text='Prefix closure of the template set and the parent / get_as / "/" laws are invariants of the model; every typed string (and untyped inputs) is built through six constructors and navigated, every result validated against GetAs / Parent / Div of the spec.', ref='5 (C03)'),
 'C04': dict(tech='TLC model checking of MC_Core[query, getwith] (AllOrNothing, OptionalNeverAdds, GetWithExact; decision table rows as coverage tags) + replay + TLC trace validation',
             text='The five-row decision table of query application is an explicit operator (ApplyQueryB); TLC checks all-or-nothing on every (Sid, overlay) of the family and the implementation is validated row by row (coverage guard: rows NoType, OneType, ManyKeepsOld, ManySearchFirst exercised).', ref='5 (C04)'),
 'C05': dict(tech='TLC model checking of MC_Path[topath] (RoundTrip, SameUpToRoot; path parse sets, repeated-placeholder consistency, value mappings in TLA+) + replay of sid.path() in every spelling and configuration order + TLC trace validation',
             text='ToPath / FromPath are explicit operators over lexeme paths; TLC proves the round trip (hence injectivity and unambiguous parse) on the family; the implementation is asked positionally, by keyword, twice, through Sids built by other constructors, with either configuration loaded first, and every answer is validated.', ref='5 (C05)'),
 'C06': dict(tech='TLC model checking of MC_Path[frompath] (OwnerOnly over lexeme-level edits of valid paths) + replay into Sid(path=, config=) + TLC trace validation',
             text='TLC checks on the model that a typed result always formats back to the path; every edited path is resolved by the implementation and validated (no exception of any class; typed => path() is the input; strict type / fields where the parse is unambiguous).', ref='5 (C06)'),
 'C07': dict(tech='TLC model checking of MC_Search[unfold]: operational pipeline Unfold = declarative Denote on every search of the edit family + replay into unfold_search + TLC trace validation',
             text='Two independent definitions of what a search denotes (the staged pipeline and the set comprehension written from the property text) are proved equal by TLC on the family; unfold_search is then validated against them (set equality, no duplicates, only SpilException).', ref='5 (C07)'),
 'C08': dict(tech='TLC model checking of MC_Search[findlist] over generated universes + replay into FindInList.find / find_one / exists / Sid.match and the constructor options do_extrapolate / do_pre_sort + TLC trace validation (FindListClauses, MatchClauses)',
             text='List search is defined in TLA+ down to character-level globbing; TLC checks result shape on the model and the implementation results are validated as sets with a no-duplicate clause.', ref='5 (C08)'),
 'C09': dict(tech='TLC model checking of MC_Search[findlist, with >] (GtOnePerGroup) + replay + TLC trace validation with segment-wise order defined in TLA+ (StrLess over extracted character codes)',
             text='The greatest-per-group semantics (LastOf with SegsLess) is part of the spec; searches with ">" over universes whose names sort below "/" are validated. Where the property\'s precondition (one ">" position in all unfolded forms) is false the line is counted, not compared.', ref='5 (C09)'),
 'C10': dict(tech='TLC model checking of MC_Search[algebra]: AlgebraHolds invariant for the five rewrite rules on the model + replay of (search, derived searches) on FindInList and, over materialised trees, on FindInPaths (local, server) and FindInAll + TLC trace validation (AlgebraClauses, AlgebraFsClauses)',
             text='The derived searches are produced by the specification (never by the harness); the algebra is an invariant on the model and a clause on the observed result sets.', ref='5 (C10)'),
 'C11': dict(tech='TLC model checking of MC_Search[finders] over Store.tla (FindersAgree, JunkChangesNothing; each finder modelled by its own mechanism, routing and constants extracted) + replay on materialised trees (list / local / server / all, clean and with junk) + TLC trace validation',
             text='FindInPaths (glob + re-resolution + type filter), FindInList (string glob) and FindInAll (routing, constants finders) are separate operators; that they agree on type-complete, path-backed searches and that junk changes nothing are invariants checked by TLC; every search is run through the four real finders on trees materialised from the same universes and validated.', ref='5 (C11)'),
 'C12': dict(tech='TLC model checking of MC_Store[sidreads] (children / siblings / leaf / parent-closure theorems) + replay of exists / children / siblings and of exists / find_one / as_sid on four finders + TLC trace validation',
             text='exists / children / siblings are defined through FindInAll as the code does; their set-theoretic meaning is an invariant of the model; the implementation is validated for every Sid of the universe (existing or not) and for every finder; reads after creates are part of the C15 behaviours.', ref='5 (C12)'),
 'C13': dict(tech='TLC model checking of Cache.tla (full key transparent over all histories; keyword-name key refuted) + guarded hook in spil.util.caching + histories (ordered pairs, random sequences, capacity 4096 and 3, data changes, partially consumed generators) run from pristine forked interpreters under 8 hash seeds + TLC trace validation of every cache decision and every answer (CacheTrace)',
             text='A correct cache is modelled (hit only on a key this very call stored and that was not evicted, LIFO eviction only when full); the recorded decisions of the real wrappers are replayed through it and every top-level answer is compared with the answer of a pristine process for the same call and data epoch, and across hash seeds.', ref='5 (C13)'),
 'C14': dict(tech='TLC-generated pairs (MC_Core[eqlaws]) and operation sequences (SidHeap: Frozen, EqualIffSameUri; 22 operations incl. the copy / deepcopy / pickle protocols) + replay on real Sids with every returned container damaged + TLC trace validation (EqClauses, ImmutTrace: every handle equals its creation value after every operation)',
             text='Sids are values in the specification; the implementation is walked along TLC-generated operation sequences and after each operation the snapshot (string, type, fields, uri, hash) of every live handle is validated against the value bound at creation; equality / hash / order laws are validated on all pairs incl. same-string Sids of different types.', ref='5 (C14)'),
 'C15': dict(tech='TLC model checking of StoreDyn (all Writer behaviours to a depth, values of every JSON type; ExistsIff, FailChangesNothing, WriteIsLocal ...) + TLC -simulate behaviours + replay of every behaviour on a scratch tree + stateful TLC trace validation (StoreTrace: model state advanced by the spec action and compared with listing / sidecars / reads, incl. a new Getter and a new process)',
             text='The store is a state machine (tree, sidecars); create / update / set are actions with their failure branches; the guarantees are invariants and action properties over all histories; behaviours generated by TLC are replayed with the real WriteToPaths and the full projected state is validated after every call.', ref='5 (C15)'),
 'C16': dict(tech='TLC-generated family MC_Store[getter] (searches x attribute subsets x encoders) + replay of GetFromPaths / GetFromAll next to FindInPaths on seeded trees + TLC trace validation (GetterClauses)',
             text='The expected record of every found Sid is computed by the spec from the seeded data (SideDataOf) and the encoder; order is compared position-wise with find() of the same process.', ref='5 (C16)'),
 'C17': dict(tech='TLC model checking of SidecarWrite (crash between all effects and at every byte boundary; tmp_replace protocol satisfies Atomic / NextWriteSucceeds, the in-place protocol is refuted) + strace-recorded effects of the real set() validated as a behaviour of the protocol with the crash-safety invariant evaluated after every effect (WriteTrace) + every crash state and every corruption materialised and read back by a new process',
             text='The write protocol is a small state machine with a Crash action enabled everywhere; TLC proves atomicity for write-to-temporary-then-replace and finds the counter-example for in-place truncation; the real effect sequence (strace) must be a behaviour of the former, and each crash point is rebuilt on disk and exercised with the real reader and writer.', ref='5 (C17)'),
 'C18': dict(tech='TLC model checking of VersionDyn (publish behaviours from every initial version set; LastIsGreatest, NextIsSuccessor, NewIsFresh, NewIsSuccessorOfLast, OtherFieldsKept, Monotone) + -simulate sequences of 8 publishes + replay + stateful TLC trace validation (VersionTrace)',
             text='get_last / get_next / get_new are operators over the tree state following the code path (FindInAll with ">", the configured NextGetter); the workflow guarantees are invariants over all publish histories; every behaviour is replayed with the real API and validated step by step.', ref='5 (C18)'),
 'C19': dict(tech='TLC model checking of MC_Extrapolate (ExtrapolationOK, ReplaceScoped over a grammar of configurations) + replay into extrapolate_templates / pattern_replacing + TLC trace validation',
             text='The declarative statement of the property is checked against the operational Extrapolate on every configuration of the grammar; the real functions are then validated on the same configurations and on the shipped one.', ref='5 (C19)'),
 'C20': dict(tech='configuration packages generated from the shipped one (renamed keys incl. the leaf key and the basetype key, basetypes, type codes, project; other separators and fixed folders; an inserted level; extrapolation from the leaf types; a third path configuration with its own value mapping) + for each: fresh extraction, TLC model checking of the C01-C08 (thorough: + C03, C11) families on THAT configuration, replay on the real spil running with it, TLC trace validation',
             text='The specification never names a key, type or value: everything comes from conf.json, which is extracted anew from each generated package; the same TLC families, replays and trace validations as for C01-C08 are run under every package, so a dependency of the library on the demo names, levels or separators shows as a violation that the shipped configuration does not have.', ref='5 (C20)'),
}
checks = []
for p in props:
    pid = p['id']
    if pid not in C:
        continue
    c = C[pid]
    checks.append(dict(property_id=pid, quick_cmd='./check %s --tier quick' % pid, thorough_cmd='./check %s --tier thorough' % pid,
                       evidence_file='evidence/%s.json' % pid, replay_cmd_template='./check %s --replay {path}' % pid,
                       engine='tlc-spil', technique=c['tech'],
                       level_claimed=dict(category='model_checking', text=c['text'], design_ref='DESIGN.md section ' + c['ref']),
                       level_note=TRUST))
hooks_commits = [l.split()[0] for l in subprocess.run(['git', '-C', '/repo', 'log', '--format=%h %s'], capture_output=True, text=True).stdout.splitlines() if 'verif hook' in l]
m = dict(version=1, setup_cmd='true',
         hooks=dict(guard='SPIL_VERIF', enable='SPIL_VERIF=1 in the environment of the spil subprocesses started by ./check (pure Python: nothing to build)',
                    baseline_off_cmd='cd /repo && env -u SPIL_VERIF /venv/bin/python -m pytest -ra -q -p no:cacheprovider --timeout=900 --continue-on-collection-errors',
                    source_commits=hooks_commits, add_only=True),
         engines=[dict(name='tlc-spil', path='check', serves_properties=sorted(C), kind_free_text='explicit TLA+ specification (spec/*.tla) checked by TLC; spec->code replay of TLC-generated families and behaviours; code->spec trace validation by TLC')],
         checks=checks,
         notes='See DESIGN.md. Every check: TLC on the specification (bounded family), replay of the generated inputs / behaviours on the real spil, TLC validation of the recorded trace.',
         not_applicable=[dict(property_id=p['id'], reason='check under construction in this round (specification module not bound to the implementation yet)') for p in props if p['id'] not in C])
json.dump(m, open(os.path.join(V, 'MANIFEST.json'), 'w'), indent=1)
print(len(checks), 'checks')
