"""C17 harness: records the real file-system effects of set() / update() with strace, materialises
every crash state (each effect boundary, each byte boundary of each write) on a scratch tree and
reads it back with the real spil from a new process, and plants corrupted sidecars.

usage: run_write.py <calls.ndjson> <trace.ndjson>     (ops: effects, crash, corrupt)
       run_write.py --child <json args>               (internal: the process that is straced / reads back)
"""
import sys, json, os, re, shutil, subprocess, tempfile


def child(args):
    """runs inside a fresh interpreter with spil"""
    import spil  # noqa
    from spil import Sid, WriteToPaths, GetFromPaths, FindInPaths
    a = json.loads(args)
    out = {}
    try:
        if a['do'] == 'setup':
            w = WriteToPaths()
            for s, data in a['entities']:
                if Sid(s).path().exists():
                    if data:
                        w.update(s, data)
                else:
                    w.create(s, data=data or None)
            out['paths'] = {s: str(Sid(s).path()) for s, _ in a['entities']}
        elif a['do'] == 'set':
            r = WriteToPaths().set(a['sid'], **a['data'])
            out['ret'] = bool(r)
        elif a['do'] == 'read':
            g = GetFromPaths()
            out['data'] = {s: g.get_data(s) for s in a['sids']}
            out['found'] = sorted(FindInPaths().find(a['search'], as_sid=False))
            out['exists'] = {s: bool(Sid(s).exists()) for s in a['sids']}
        elif a['do'] == 'read_then_set':
            g = GetFromPaths()
            out['data'] = {s: g.get_data(s) for s in a['sids']}
            out['found'] = sorted(FindInPaths().find(a['search'], as_sid=False))
            try:
                out['set_ret'] = bool(WriteToPaths().set(a['sid'], **a['data2']))
                out['set_raised'] = ''
            except Exception as e:  # noqa
                out['set_ret'] = False
                out['set_raised'] = type(e).__name__
            out['data_after'] = {s: GetFromPaths().get_data(s) for s in a['sids']}
        elif a['do'] == 'read_unreadable':
            # the sandbox runs as root (chmod has no effect): the OSError is injected at pathlib level
            import pathlib
            real_open = pathlib.Path.open

            def fake_open(self, *p, **k):
                if str(self) == a['sidecar']:
                    raise PermissionError(13, 'Permission denied', str(self))
                return real_open(self, *p, **k)
            pathlib.Path.open = fake_open
            g = GetFromPaths()
            out['data'] = {s: g.get_data(s) for s in a['sids']}
            out['found'] = sorted(FindInPaths().find(a['search'], as_sid=False))
        out['raised'] = ''
    except Exception as e:  # noqa
        import traceback
        out['raised'] = type(e).__name__
        out['tb'] = traceback.format_exc()[-500:]
    print('CHILD-RESULT ' + json.dumps(out))


def run_child(a, strace_out=None):
    cmd = [sys.executable, os.path.abspath(__file__), '--child', json.dumps(a)]
    if strace_out:
        cmd = ['strace', '-f', '-y', '-s', '65536', '-e', 'trace=openat,open,write,rename,renameat,renameat2,unlink,unlinkat,close,ftruncate,truncate',
               '-o', strace_out] + cmd
    p = subprocess.run(cmd, capture_output=True, text=True)
    for line in p.stdout.splitlines():
        if line.startswith('CHILD-RESULT '):
            return json.loads(line[13:])
    return dict(raised='NOCHILD', tb=(p.stdout + p.stderr)[-800:])


def roots():
    from ops_store import pathconf
    return pathconf()


def sidecar_of(p):
    from ops_store import _sidecar
    return _sidecar(p)


_unesc = re.compile(r'\\(x[0-9a-fA-F]{2}|[0-7]{1,3}|.)')


def c_unescape(s):
    def rep(m):
        g = m.group(1)
        if g[0] == 'x':
            return chr(int(g[1:], 16))
        if g[0].isdigit():
            return chr(int(g, 8))
        return {'n': '\n', 't': '\t', 'r': '\r', '"': '"', '\\': '\\'}.get(g, g)
    return _unesc.sub(rep, s)


def parse_strace(path, folder):
    """effects on hidden files of `folder`, in order: [kind, file, payload]"""
    ev = []
    for line in open(path, errors='replace'):
        m = re.match(r'^\d+\s+(\w+)\((.*)\)\s+= (-?\d+)', line.strip())
        if not m:
            continue
        call, args, ret = m.group(1), m.group(2), int(m.group(3))
        if ret < 0:
            continue
        if call in ('openat', 'open'):
            mm = re.search(r'"((?:[^"\\]|\\.)*)", ([A-Z_|0-9]+)', args)
            if not mm:
                continue
            f, flags = c_unescape(mm.group(1)), mm.group(2)
            if os.path.dirname(f) != folder or not os.path.basename(f).startswith('.'):
                continue
            if 'O_TRUNC' in flags:
                ev.append(['open_trunc', f, ''])
            elif 'O_WRONLY' in flags or 'O_RDWR' in flags:
                ev.append(['open_write', f, ''])
            else:
                ev.append(['open_read', f, ''])
        elif call == 'write':
            mm = re.match(r'\d+<([^>]*)>, "((?:[^"\\]|\\.)*)"', args)
            if mm and os.path.dirname(mm.group(1)) == folder and os.path.basename(mm.group(1)).startswith('.'):
                ev.append(['write', mm.group(1), c_unescape(mm.group(2))])
        elif call == 'close':
            mm = re.match(r'\d+<([^>]*)>', args)
            if mm and os.path.dirname(mm.group(1)) == folder and os.path.basename(mm.group(1)).startswith('.'):
                ev.append(['close', mm.group(1), ''])
        elif call.startswith('rename'):
            fs = [c_unescape(x) for x in re.findall(r'"((?:[^"\\]|\\.)*)"', args)]
            if len(fs) >= 2 and os.path.dirname(fs[-1]) == folder:
                ev.append(['rename', fs[0], fs[-1]])
        elif call.startswith('unlink'):
            fs = [c_unescape(x) for x in re.findall(r'"((?:[^"\\]|\\.)*)"', args)]
            if fs and os.path.dirname(fs[-1]) == folder and os.path.basename(fs[-1]).startswith('.'):
                ev.append(['unlink', fs[-1], ''])
    return ev


def role(f, sidecar):
    return 'dst' if f == sidecar else 'tmp'


def apply_effects(evs, upto, partial=None):
    """re-create on disk the state after the first `upto` effects (+ `partial` bytes of the next write)"""
    for k, f, x in evs[:upto]:
        if k == 'open_trunc':
            open(f, 'w').close()
        elif k == 'write':
            with open(f, 'a') as h:
                h.write(x)
        elif k == 'rename':
            os.replace(f, x)
        elif k == 'unlink' and os.path.exists(f):
            os.remove(f)
    if partial is not None:
        k, f, x = evs[upto]
        with open(f, 'a') as h:
            h.write(x[:partial])


def snapshot(root):
    d = tempfile.mkdtemp(prefix='c17snap-')
    shutil.copytree(root, os.path.join(d, 't'), symlinks=True)
    return d


def restore(snap, root):
    shutil.rmtree(root, ignore_errors=True)
    shutil.copytree(os.path.join(snap, 't'), root, symlinks=True)


def jdata(d):
    return sorted([str(k), json.dumps(v, sort_keys=True)] for k, v in (d or {}).items())


def main():
    if sys.argv[1] == '--child':
        return child(sys.argv[2])
    pc = roots()
    root = pc['roots'][pc['default']]
    with open(sys.argv[1]) as fin, open(sys.argv[2], 'w') as out:
        for line in fin:
            c = json.loads(line)
            sid, other = c['sid'], c['other']
            first = c['first']
            old = {} if first else dict(c['old'])
            new = dict(c['new'])
            shutil.rmtree(root, ignore_errors=True)
            st = run_child(dict(do='setup', entities=[[sid, old], [other, dict(c['other_data'])]]))
            if st.get('raised'):
                out.write(json.dumps(dict(call=c, obs=dict(raised='HARNESS:setup ' + st.get('tb', '')))) + '\n')
                continue
            spath = st['paths'][sid]
            sc = sidecar_of(spath)
            folder = os.path.dirname(sc)
            search = c['search']
            snap = snapshot(root)
            expect_old = dict(old, sid=sid)
            expect_new = dict(old, **new)
            expect_new['sid'] = sid
            expect_other = dict(dict(c['other_data']), sid=other)
            if c['op'] == 'effects' or c['op'] == 'crash':
                so = os.path.join(tempfile.gettempdir(), 'c17-strace-%d.txt' % os.getpid())
                r = run_child(dict(do='set', sid=sid, data=new), strace_out=so)
                evs = parse_strace(so, folder)
                os.remove(so)
                after = run_child(dict(do='read', sids=[sid, other], search=search))
                events = [[k, role(f, sc), (len(x) if k == 'write' else (role(x, sc) if k == 'rename' else 0))] for k, f, x in evs]
                if c['op'] == 'effects':
                    total = sum(len(x) for k, f, x in evs if k == 'write')
                    out.write(json.dumps(dict(call=dict(op='wbegin', first=first, sid=sid), obs={})) + '\n')
                    for k, f, x in evs:
                        out.write(json.dumps(dict(call=dict(op='weffect', kind=k, file=role(f, sc), total=total,
                                                            n=(len(x) if k == 'write' else (role(x, sc) if k == 'rename' else 0))), obs={})) + '\n')
                        out.write(json.dumps(dict(call=dict(op='wsafe'), obs={})) + '\n')
                    obs = dict(raised=r.get('raised', ''), ret=bool(r.get('ret', False)), n_events=len(evs), payload_len=total,
                               n_renames=sum(1 for k, f, x in evs if k == 'rename'),
                               final=jdata(after.get('data', {}).get(sid)), expect_new=jdata(expect_new), first=first)
                    out.write(json.dumps(dict(call=dict(op='wend', sid=sid, first=first), obs=obs)) + '\n')
                else:
                    # every crash point: before effect j (j = 0..n), and inside each write at each byte boundary
                    points = [(j, None) for j in range(len(evs) + 1)]
                    for j, (k, f, x) in enumerate(evs):
                        if k == 'write':
                            points += [(j, b) for b in range(1, len(x))]
                    for j, b in points:
                        restore(snap, root)
                        apply_effects(evs, j, b)
                        rd = run_child(dict(do='read_then_set', sids=[sid, other], search=search, sid=sid, data2=dict(c['new2'])))
                        exp_after_old = dict(expect_old, **dict(c['new2']))
                        exp_after_new = dict(expect_new, **dict(c['new2']))
                        obs = dict(raised=rd.get('raised', ''), point=[j, -1 if b is None else b], n_events=len(evs),
                                   read=jdata(rd.get('data', {}).get(sid)), read_other=jdata(rd.get('data', {}).get(other)),
                                   found=rd.get('found', []), set_ret=rd.get('set_ret', False), set_raised=rd.get('set_raised', 'NOCHILD'),
                                   after=jdata(rd.get('data_after', {}).get(sid)), after_other=jdata(rd.get('data_after', {}).get(other)),
                                   expect_old=jdata(expect_old), expect_new=jdata(expect_new), expect_other=jdata(expect_other),
                                   expect_after_old=jdata(exp_after_old), expect_after_new=jdata(exp_after_new),
                                   expect_found=c['expect_found'], tb=rd.get('tb', ''))
                        out.write(json.dumps(dict(call=dict(c, op='crash'), obs=obs)) + '\n')
            elif c['op'] == 'corrupt':
                # a valid sidecar for sid, then every corruption of it
                run_child(dict(do='set', sid=sid, data=new))
                content = open(sc).read()
                kinds = [('truncate', k) for k in range(0, len(content))] + [('empty', 0), ('garbage', 0), ('directory', 0), ('unreadable', 0)]
                for kind, k in kinds:
                    if os.path.isdir(sc):
                        shutil.rmtree(sc)
                    if kind == 'truncate':
                        open(sc, 'w').write(content[:k])
                    elif kind == 'empty':
                        open(sc, 'w').close()
                    elif kind == 'garbage':
                        open(sc, 'wb').write(b'\xff\xfe{not json')
                    elif kind == 'list':
                        open(sc, 'w').write('[1, 2]')
                    elif kind == 'directory':
                        os.remove(sc)
                        os.mkdir(sc)
                    elif kind == 'unreadable':
                        open(sc, 'w').write(content)
                    do = 'read_unreadable' if kind == 'unreadable' else 'read'
                    rd = run_child(dict(do=do, sids=[sid, other], search=search, sidecar=sc))
                    obs = dict(raised=rd.get('raised', ''), kind=kind, k=k, valid=(kind == 'truncate' and False),
                               read=jdata(rd.get('data', {}).get(sid)), read_other=jdata(rd.get('data', {}).get(other)),
                               found=rd.get('found', []), expect_sid_only=jdata(dict(sid=sid)), expect_other=jdata(expect_other),
                               expect_found=c['expect_found'], tb=rd.get('tb', ''))
                    out.write(json.dumps(dict(call=dict(c, op='corrupt'), obs=obs)) + '\n')
            shutil.rmtree(snap, ignore_errors=True)
    print(json.dumps(dict(ok=True)))


if __name__ == '__main__':
    main()
