"""Execute structured calls against the real spil and log what it did (ndjson).

This script computes NO spil semantics: it renders inputs, calls the public API, and
records observations.  Every comparison happens in TLA+ (spec/PureTrace.tla).

usage: run_calls.py <calls.ndjson> <trace.ndjson>
"""
import sys, json, random, re, os

sys.setrecursionlimit(10000)
from wire import enc, dec, render_sid, render_search, snap, lexpath, RAISED  # noqa
import spil  # noqa
from spil import Sid, SpilException  # noqa


def guard(fn):
    """run fn, return (value, raised-class-name)"""
    try:
        return fn(), ''
    except SpilException as e:
        return None, 'SpilException'
    except Exception as e:  # noqa
        return None, type(e).__name__ + ':' + RAISED(e)


def op_sid(c):
    s = render_sid(c)
    sid, r = guard(lambda: Sid(s))
    o = dict(raised=r)
    if r:
        o.update(type='', fields=[], string='', truthy=False, len=0)
    else:
        o.update(snap(sid), truthy=bool(sid), len=len(sid))
        # a user who edits what the API handed out must not change what the same string means afterwards
        try:
            f = sid.fields
            f['%evil'] = 'x'
            for k in list(f)[:1]:
                del f[k]
            again = Sid(s)
            o['again'] = dict(snap(again), truthy=bool(again), len=len(again))
        except Exception as e:  # noqa
            o['again'] = dict(type='%raised:' + type(e).__name__, fields=[], string='', truthy=False, len=0)
    return o


def _form(fn, base):
    sid, r = guard(fn)
    if r:
        return dict(raised=r, type='', fields=[], string='', eq=False, req=False, heq=False)
    d = snap(sid)
    d.update(raised='', eq=(sid == base), req=(base == sid), heq=(hash(sid) == hash(base)))
    return d


def op_forms(c):
    """C02: every way of rebuilding a typed Sid"""
    s = render_sid(c)
    base, r = guard(lambda: Sid(s))
    o = dict(raised=r, forms=[])
    if r:
        o.update(type='', fields=[], string='')
        return o
    o.update(snap(base))
    f = base.fields
    items = list(f.items())
    rnd = random.Random(c.get('seed', 0))
    forms = [('uri', lambda: Sid(base.uri)),
             ('fields', lambda: Sid(fields=dict(items))),
             ('fields_rev', lambda: Sid(fields=dict(reversed(items)))),
             ('fields_sorted', lambda: Sid(fields=dict(sorted(items)))),
             ('repr', lambda: eval(repr(base), {'Sid': Sid})),
             ('copy', lambda: base.copy()),
             ('str_typed', lambda: Sid(base.type + ':' + str(base)) if base.type else Sid(str(base)))]
    for k in range(2):
        sh = list(items)
        rnd.shuffle(sh)
        forms.append(('fields_shuffle%d' % k, (lambda sh=sh: Sid(fields=dict(sh)))))
    if c.get('qsafe') and items:
        forms.append(('query', lambda: Sid(query=base.as_query())))
        sh = list(items)
        rnd.shuffle(sh)
        forms.append(('query_shuffled', lambda sh=sh: Sid(query='&'.join(k + '=' + v for k, v in sh))))
        forms.append(('sid_query', lambda: Sid('?' + base.as_query())))
    if not items:
        forms = forms[:1] + forms[4:6]
    o['forms'] = [dict(name=n, **_form(fn, base)) for n, fn in forms]
    return o


def _build(c):
    """build the Sid of a call through the constructor named in c['via']"""
    via = c.get('via', 'string')
    s = render_sid(c)
    if via == 'string':
        return Sid(s)
    base = Sid(s)
    if not base.fields:
        return base
    items = list(base.fields.items())
    rnd = random.Random(c.get('seed', 0))
    if via == 'uri':
        return Sid(base.uri)
    if via == 'fields_shuffled':
        rnd.shuffle(items)
        return Sid(fields=dict(items))
    if via == 'query_shuffled':
        rnd.shuffle(items)
        return Sid(query='&'.join(k + '=' + v for k, v in items))
    if via == 'getwith':
        return base.get_with(**{items[-1][0]: items[-1][1]})
    if via == 'path':
        p = base.path()
        return Sid(path=p) if p else base
    raise ValueError(via)


def op_nav(c):
    """C03: get_as for every key (+ foreign keys), parent, parent / last, parent walk, keytype ..."""
    sid, r = guard(lambda: _build(c))
    o = dict(raised=r)
    if r:
        return o
    o['self'] = snap(sid)
    keys = list(sid.fields.keys())
    o['get_as'] = []
    for k in keys + list(c.get('foreign', [])):
        x, r2 = guard(lambda k=k: sid.get_as(k))
        o['get_as'].append(dict(key=k, raised=r2, **(snap(x) if not r2 else snap(None))))
    p, r2 = guard(lambda: sid.parent)
    o['parent'] = dict(raised=r2, **(snap(p) if not r2 else snap(None)))
    if not r2 and keys:
        last = sid.fields[keys[-1]]
        d, r3 = guard(lambda: p / last)
        o['div'] = dict(raised=r3, arg=enc(last), **(snap(d) if not r3 else snap(None)))
    else:
        o['div'] = dict(raised='', arg='', **snap(None))
    # walk the parents to the fixpoint
    steps, cur, walk_raised = 0, sid, ''
    try:
        while steps < 40:
            nxt = cur.parent
            if nxt == cur or not nxt:
                break
            cur = nxt
            steps += 1
    except Exception as e:  # noqa
        walk_raised = type(e).__name__
    o['walk'] = dict(raised=walk_raised, steps=steps, end=snap(cur))
    kt, r4 = guard(lambda: sid.keytype)
    bt, r5 = guard(lambda: sid.basetype)
    o['keytype'] = dict(raised=r4, value=kt or '')
    o['basetype'] = dict(raised=r5, value=bt or '')
    o['len'] = len(sid)
    o['get'] = [[k, enc(sid.get(k) or '')] for k in keys]
    return o


def op_query(c):
    """C04: a query applied by trailing '?', by get_with(query=) or Sid(sid, query) forms"""
    mode = c['mode']
    q = '&'.join(dec(k) + '=' + dec(v) for k, v in c['pairs'])
    if mode == 'trailing':
        s = render_sid(dict(c, query=c['pairs']))
        x, r = guard(lambda: Sid(s))
    elif mode == 'getwith_query':
        base = Sid(render_sid(dict(c, query=[])))
        x, r = guard(lambda: base.get_with(query=q))
    else:
        raise ValueError(mode)
    o = dict(raised=r, **(snap(x) if not r else snap(None)))
    return o


def op_getwith(c):
    """C04: keyword form; value '%None' stands for None"""
    base = Sid(render_sid(dict(c, query=[])))
    kw = {dec(k): (None if v == '%None' else dec(v)) for k, v in c['kw']}
    if c.get('mode') == 'kv' and len(kw) == 1:
        (k, v), = kw.items()
        x, r = guard(lambda: base.get_with(key=k, value=v))
    else:
        x, r = guard(lambda: base.get_with(**kw))
    return dict(raised=r, **(snap(x) if not r else snap(None)))


def op_eqlaws(c):
    """C14 value part: ==, hash, ordering, string comparison for a pair of Sids"""
    a = Sid(render_sid(c['a']))
    b = Sid(render_sid(c['b']))
    o = dict(a=snap(a), b=snap(b), auri=enc(a.uri), buri=enc(b.uri))
    o['eq'] = (a == b)
    o['eq_sym'] = (b == a)
    o['hash_eq'] = (hash(a) == hash(b))
    o['ne'] = (a != b)
    o['lt'] = (a < b)
    o['gt'] = (a > b)
    o['eq_str'] = (a == str(b))
    o['eq_str_r'] = (str(b) == a)
    o['in_set'] = (b in {a})
    o['sorted'] = [enc(str(x)) for x in sorted([a, b])]
    o['dict_get'] = ({a: 1}.get(b) == 1)
    return o


OPS = {k[3:]: v for k, v in globals().items() if k.startswith('op_')}


def main():
    try:
        import ops_more  # further op_* functions (search, path, ...)
        OPS.update({k[3:]: v for k, v in vars(ops_more).items() if k.startswith('op_')})
    except ImportError:
        pass
    try:
        import ops_store
        OPS.update({k[3:]: v for k, v in vars(ops_store).items() if k.startswith('op_')})
    except ImportError as e:
        sys.stderr.write('ops_store not loaded: %s\n' % e)
    if os.environ.get('SPIL_CACHE_CAP'):
        from spil.util import caching
        caching._max_size = int(os.environ['SPIL_CACHE_CAP'])     # force eviction (the capacity is read at call time)
    if os.environ.get('SPIL_FIRST_CFG'):
        from spil.sid.pathops.pathconfig import get_path_config
        get_path_config(os.environ['SPIL_FIRST_CFG'])
    if os.environ.get('SPIL_UNIVERSES'):
        import ops_more
        _u = json.load(open(os.environ['SPIL_UNIVERSES']))
        ops_more.UNIVERSES = _u.get('universes', _u)
    n = 0
    with open(sys.argv[1]) as fin, open(sys.argv[2], 'w') as fout:
        for line in fin:
            c = json.loads(line)
            try:
                obs = OPS[c['op']](c)
            except Exception as e:  # harness-level failure is recorded, not hidden
                import traceback
                obs = dict(raised='HARNESS:' + type(e).__name__ + ':' + str(e)[:200], tb=traceback.format_exc()[-600:])
            fout.write(json.dumps(dict(call=c, obs=obs)) + '\n')
            n += 1
    print(json.dumps(dict(executed=n)))


if __name__ == '__main__':
    main()
