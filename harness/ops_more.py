"""Further ops for run_calls.py: search unfolding, list search, match, paths."""
import json, os, re
from wire import enc, dec, render_sid, render_search, snap, lexpath, unlexpath, make_lexer, RAISED
from spil import Sid, SpilException, FindInList
from spil.sid.read.tools import unfold_search


def guard(fn):
    try:
        return fn(), ''
    except SpilException:
        return None, 'SpilException'
    except Exception as e:  # noqa
        return None, type(e).__name__ + ':' + RAISED(e)


def _segs(x):
    return [enc(p) for p in str(x).split('/')]


def op_unfold(c):
    s = render_search(c['search'])
    kw = {}
    if c.get('extrapolate'):
        kw['do_extrapolate'] = True
    r, err = guard(lambda: unfold_search(s, **kw))
    o = dict(err=err, res=[], strings=[])
    if not err:
        o['res'] = [[x.type, _segs(x)] for x in r]
        o['strings'] = [enc(str(x)) for x in r]
        o['all_sid'] = all(isinstance(x, Sid) for x in r)
    return o


UNIVERSES = {}


def _entries(c):
    L = UNIVERSES[c['univ']] if c.get('univ') else c['L']
    return ['/'.join(dec(p) for p in e) for e in L]


def op_findlist(c):
    s = render_search(c['search'])
    L = _entries(c)
    finder = FindInList(L)
    r, err = guard(lambda: list(finder.find(s, as_sid=False)))
    o = dict(err=err, res=[_segs(x) for x in (r or [])])
    r2, err2 = guard(lambda: list(finder.find(s, as_sid=True)))
    o['err_sid'] = err2
    o['res_sid'] = [[x.type, _segs(x)] for x in (r2 or [])]
    o['sid_strings_same'] = (not err and not err2 and [str(x) for x in r2] == list(r))
    e1, errx = guard(lambda: finder.exists(s))
    f1, errf = guard(lambda: finder.find_one(s, as_sid=False))
    f2, errf2 = guard(lambda: finder.find_one(s, as_sid=True))
    o['exists'] = dict(raised=errx, value=bool(e1))
    o['find_one'] = dict(raised=errf, value=_segs(f1) if f1 else [], none=(f1 is None))
    o['find_one_sid'] = dict(raised=errf2, **(snap(f2) if not errf2 else snap(None)))
    return o


def op_match(c):
    s = render_search(c['search'])
    sid = Sid('/'.join(dec(p) for p in c['entry']))
    r, err = guard(lambda: sid.match(s))
    return dict(err=err, value=bool(r), typed=bool(sid))


def _finder(c):
    kind = c.get('finder', 'list')
    if kind == 'list':
        return FindInList(_entries(c))
    raise ValueError(kind)


def op_algebra(c):
    """C10: a search and the searches the algebra relates it to, on the same data"""
    finder = _finder(c)

    def run(search):
        s = render_search(search)
        r, err = guard(lambda: list(finder.find(s, as_sid=False)))
        return dict(err=err, res=[_segs(x) for x in (r or [])], s=enc(s))
    o = run(c['search'])
    o['parts'] = [run(p) for p in c['parts']]
    return o


def op_extrapolate(c):
    """C19: one template configuration through the real extrapolate_templates / pattern_replacing"""
    from spil.conf.util import extrapolate_templates, pattern_replacing
    cfg = c['cfg']
    tpl = {t['name']: '/'.join(t['ph']) for t in cfg['templates']}
    tox = list(cfg['toX'])
    o = {}
    r, err = guard(lambda: extrapolate_templates(dict(tpl), tox))
    o['err'] = err
    o['out'] = [[k, v.split('/')] for k, v in (r or {}).items()]
    if not err:
        kps = {e['sel']: {f: rp for f, rp in e['pairs']} for e in cfg['kps']}
        d = dict(r)
        _, err2 = guard(lambda: pattern_replacing(d, kps))
        o['err2'] = err2
        o['replaced'] = [[k, v.split('/')] for k, v in d.items()]
    else:
        o['err2'] = ''
        o['replaced'] = []
    return o
