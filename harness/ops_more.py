"""Further ops for run_calls.py: search unfolding, list search, match, paths."""
import json, os, re
from wire import enc, dec, render_sid, render_search, snap, lexpath, unlexpath, make_lexer, RAISED
from spil import Sid, SpilException, FindInList
from spil.sid.read.tools import unfold_search


def guard(fn):
    try:
        return fn(), ''
    except SpilException:
        return None, 'SpilException'
    except Exception as e:  # noqa
        return None, type(e).__name__ + ':' + RAISED(e)


def _segs(x):
    return [enc(p) for p in str(x).split('/')]


def op_unfold(c):
    s = render_search(c['search'])
    kw = {}
    if c.get('extrapolate'):
        kw['do_extrapolate'] = True
    if c.get('uniquify'):
        kw['do_uniquify'] = True
    r, err = guard(lambda: unfold_search(s, **kw))
    o = dict(err=err, res=[], strings=[])
    if not err:
        o['res'] = [[x.type, _segs(x)] for x in r]
        o['strings'] = [enc(str(x)) for x in r]
        o['all_sid'] = all(isinstance(x, Sid) for x in r)
    return o


UNIVERSES = {}


def _entries(c):
    L = UNIVERSES[c['univ']] if c.get('univ') else c['L']
    return ['/'.join(dec(p) for p in e) for e in L]


def op_findlist(c):
    s = render_search(c['search'])
    L = _entries(c)
    finder = FindInList(L)
    r, err = guard(lambda: list(finder.find(s, as_sid=False)))
    o = dict(err=err, res=[_segs(x) for x in (r or [])])
    r2, err2 = guard(lambda: list(finder.find(s, as_sid=True)))
    o['err_sid'] = err2
    o['res_sid'] = [[x.type, _segs(x)] for x in (r2 or [])]
    o['sid_strings_same'] = (not err and not err2 and [str(x) for x in r2] == list(r))
    e1, errx = guard(lambda: finder.exists(s))
    f1, errf = guard(lambda: finder.find_one(s, as_sid=False))
    f2, errf2 = guard(lambda: finder.find_one(s, as_sid=True))
    o['exists'] = dict(raised=errx, value=bool(e1))
    o['find_one'] = dict(raised=errf, value=_segs(f1) if f1 else [], none=(f1 is None))
    o['find_one_sid'] = dict(raised=errf2, **(snap(f2) if not errf2 else snap(None)))
    # the constructor options of FindInList (beyond C08): the list extrapolated to its ancestors; pre-sorted and de-duplicated
    rx, errx2 = guard(lambda: list(FindInList(list(L), do_extrapolate=True).find(s, as_sid=False)))
    o['x_err'], o['x_res'] = errx2, [_segs(x) for x in (rx or [])]
    rp, errp = guard(lambda: list(FindInList(list(L) + list(L[:2]), do_pre_sort=True).find(s, as_sid=False)))
    o['ps_err'], o['ps_res'] = errp, [_segs(x) for x in (rp or [])]
    return o


def op_match(c):
    s = render_search(c['search'])
    sid = Sid('/'.join(dec(p) for p in c['entry']))
    r, err = guard(lambda: sid.match(s))
    return dict(err=err, value=bool(r), typed=bool(sid))


def _finder(c):
    kind = c.get('finder', 'list')
    if kind == 'list':
        return FindInList(_entries(c))
    raise ValueError(kind)


def op_algebra(c):
    """C10: a search and the searches the algebra relates it to, on the same data"""
    finder = _finder(c)

    def run(search):
        s = render_search(search)
        r, err = guard(lambda: list(finder.find(s, as_sid=False)))
        return dict(err=err, res=[_segs(x) for x in (r or [])], s=enc(s))
    o = run(c['search'])
    o['parts'] = [run(p) for p in c['parts']]
    return o


def op_extrapolate(c):
    """C19: one template configuration through the real extrapolate_templates / pattern_replacing"""
    from spil.conf.util import extrapolate_templates, pattern_replacing
    cfg = c['cfg']
    tpl = {t['name']: '/'.join(t['ph']) for t in cfg['templates']}
    tox = list(cfg['toX'])
    o = {}
    r, err = guard(lambda: extrapolate_templates(dict(tpl), tox))
    o['err'] = err
    o['out'] = [[k, v.split('/')] for k, v in (r or {}).items()]
    if not err:
        kps = {e['sel']: {f: rp for f, rp in e['pairs']} for e in cfg['kps']}
        d = dict(r)
        _, err2 = guard(lambda: pattern_replacing(d, kps))
        o['err2'] = err2
        o['replaced'] = [[k, v.split('/')] for k, v in d.items()]
    else:
        o['err2'] = ''
        o['replaced'] = []
    return o


# ----------------------------------------------------------------------------- paths
_PC = {}


def _pathconf():
    if not _PC:
        conf = json.load(open(os.environ['SPIL_CONF_JSON']))
        _PC['roots'] = {k: v['root'] for k, v in conf['paths'].items()}
        _PC['lex'] = make_lexer(conf['pathseps'])
        _PC['cfgs'] = conf['path_configs']
        _PC['default'] = conf['default_path_config']
    return _PC


def _lexed(p, cfg):
    pc = _pathconf()
    return lexpath(p, pc['roots'][cfg], pc['lex']) if p is not None else []


def _render_path(path, cfg):
    pc = _pathconf()
    other = [c for c in pc['cfgs'] if c != cfg]
    segs = []
    for i, seg in enumerate(path):
        if seg == ['ROOT']:
            segs.append(pc['roots'][cfg])
        elif seg == ['ROOT2']:
            segs.append(pc['roots'][other[0]] if other else '/nowhere')
        else:
            segs.append(''.join(dec(x) for x in seg))
    return '/'.join(segs)


def op_topath(c):
    """C05: path of a Sid in every configuration, asked in every spelling, and back"""
    import random
    pc = _pathconf()
    s = render_sid(dict(c, query=[]))
    sid = Sid(s)
    o = dict(self=snap(sid), cfgs=[])
    order = list(pc['cfgs'])
    if c.get('reverse'):
        order.reverse()
    items = list(sid.fields.items())
    random.Random(len(s)).shuffle(items)
    for cfg in order:
        p1, r1 = guard(lambda: sid.path(cfg))
        d = dict(cfg=cfg, raised=r1, path=_lexed(p1, cfg) if not r1 else [], is_none=(p1 is None))
        p2, r2 = guard(lambda: sid.path(config=cfg))
        d['kw'] = dict(raised=r2, same=(not r2 and p2 == p1))
        p3, r3 = guard(lambda: sid.path(cfg))
        d['again'] = dict(raised=r3, same=(not r3 and p3 == p1))
        alts = []
        for name, mk in (('uri', lambda: Sid(sid.uri)), ('fields', lambda: Sid(fields=dict(items)) if items else Sid(s)),
                         ('copy', lambda: sid.copy())):
            p4, r4 = guard(lambda: mk().path(cfg))
            alts.append(dict(via=name, raised=r4, same=(not r4 and p4 == p1)))
        d['alts'] = alts
        if cfg == pc['default']:
            p5, r5 = guard(lambda: sid.path())
            d['default'] = dict(raised=r5, same=(not r5 and p5 == p1))
        if p1 is not None and not r1:
            b, rb = guard(lambda: Sid(path=p1, config=cfg))
            d['back'] = dict(raised=rb, eq=(not rb and b == sid), **(snap(b) if not rb else snap(None)))
            bs, rbs = guard(lambda: Sid(path=str(p1), config=cfg))
            d['back_str'] = dict(raised=rbs, eq=(not rbs and bs == sid))
        else:
            d['back'] = dict(raised='', eq=False, **snap(None))
            d['back_str'] = dict(raised='', eq=False)
        o['cfgs'].append(d)
    return o


def op_frompath(c):
    """C06: an arbitrary path through Sid(path=, config=), and the path of the result"""
    cfg = c['cfg']
    p = _render_path(c['path'], cfg)
    nocfg = bool(c.get('noconfig'))
    x, r = guard((lambda: Sid(path=p)) if nocfg else (lambda: Sid(path=p, config=cfg)))
    o = dict(raised=r, lexed=_lexed(p, cfg), raw=enc(p[-80:]), **(snap(x) if not r else snap(None)))
    if not r and x:
        b, rb = guard((lambda: x.path()) if nocfg else (lambda: x.path(cfg)))
        o['back'] = dict(raised=rb, same=(not rb and b is not None and str(b) == p), path=_lexed(b, cfg) if (not rb and b is not None) else [])
    else:
        o['back'] = dict(raised='', same=False, path=[])
    return o
