#!/bin/bash
# run_seeded.sh [ids...] : apply every kept seeded change to /repo in turn, run the quick check of its property, undo it.
# Prints DETECTED / MISSED per change.  Evidence of these runs goes to a scratch directory.
cd /verif
ids=${@:-$(ls seeded)}
for m in $ids; do
  d=/verif/seeded/$m
  p=$(python3 -c "import json;print(json.load(open('$d/meta.json'))['property'])")
  chk=$p
  cd /repo
  if [ -n "$(git status --porcelain)" ]; then echo "/repo is not clean"; exit 2; fi
  if ! git apply --check "$d/patch.diff" 2>/dev/null; then echo "$m: patch does not apply any more"; continue; fi
  git apply "$d/patch.diff"
  cd /verif
  out=$(VERIF_EVIDENCE_DIR=/tmp/mut/ev ./check $chk --tier quick 2>&1 | grep -c '^VIOLATION')
  git -C /repo checkout -- . ; git -C /repo clean -fdq spil spil_hamlet_conf 2>/dev/null
  if [ "$out" -ge 1 ]; then echo "$m: DETECTED by $chk"; else echo "$m: MISSED by $chk"; fi
done
