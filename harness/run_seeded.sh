#!/bin/bash
# run_seeded.sh [ids...] : apply every kept seeded change to a PRIVATE scratch worktree of /repo in turn, run the quick
# check of its property against it (SPIL_REPO), remove the worktree.  Prints DETECTED / MISSED per change.
cd /verif
ids=${@:-$(ls seeded)}
for m in $ids; do
  d=/verif/seeded/$m
  p=$(python3 -c "import json;print(json.load(open('$d/meta.json'))['property'])")
  wt=$(mktemp -d /tmp/mutrepo-XXXXXX); rmdir $wt
  git -C /repo worktree add -q --detach $wt HEAD || { echo "$m: cannot create worktree"; continue; }
  if ! git -C $wt apply "$d/patch.diff" 2>/dev/null; then echo "$m: patch does not apply any more"; git -C /repo worktree remove --force $wt; continue; fi
  out=$(SPIL_REPO=$wt VERIF_EVIDENCE_DIR=/tmp/mut/ev ./check $p --tier quick 2>&1 | grep -c '^VIOLATION')
  git -C /repo worktree remove --force $wt; git -C /repo worktree prune
  if [ "$out" -ge 1 ]; then echo "$m: DETECTED by $p"; else echo "$m: MISSED by $p"; fi
done
