"""Ops that need a real file tree: the generated universes are materialised under the configured
roots of THIS process's private configuration copy (one Env per shard), finders / getters /
writers of the real spil are run on them, and what they return is logged."""
import json, os, shutil
from wire import enc, dec, render_sid, render_search, snap, lexpath, make_lexer, RAISED
from spil import Sid, SpilException, FindInList, FindInPaths, FindInAll, GetFromPaths, GetFromAll, WriteToPaths

UNIVERSES, JUNK = {}, {}
_PC = {}
_state = dict(univ=None, junk=False)


def guard(fn):
    try:
        return fn(), ''
    except SpilException:
        return None, 'SpilException'
    except Exception as e:  # noqa
        return None, type(e).__name__ + ':' + RAISED(e)


def pathconf():
    if not _PC:
        conf = json.load(open(os.environ['SPIL_CONF_JSON']))
        # the roots of THIS process's configuration copy (same rule as the extractor: the common literal prefix)
        from spil.sid.pathops.pathconfig import get_path_config
        import importlib
        _PC['roots'] = {}
        for k in conf['path_configs']:
            m = importlib.import_module(get_path_config(k).module.__name__)
            raw = [v for v in m.path_templates.values()]
            _PC['roots'][k] = min((v.split('{')[0] for v in raw), key=len).rstrip('/')
        _PC['lex'] = make_lexer(conf['pathseps'])
        _PC['cfgs'] = conf['path_configs']
        _PC['default'] = conf['default_path_config']
        _PC['suffix'] = conf.get('data_suffix', '.data.json')
    return _PC


def load_tables():
    if not UNIVERSES and os.environ.get('SPIL_UNIVERSES'):
        d = json.load(open(os.environ['SPIL_UNIVERSES']))
        UNIVERSES.update(d.get('universes', d))
        JUNK.update(d.get('junk', {}))


def _segs(x):
    return [enc(p) for p in str(x).split('/')]


def _unlex(path, cfg):
    pc = pathconf()
    return '/'.join(pc['roots'][cfg] if seg == ['ROOT'] else ''.join(dec(x) for x in seg) for seg in path)


def _mk(p, isdir=None):
    """create a file (last component has a dot that is not leading) or a folder"""
    name = os.path.basename(p)
    if isdir is None:
        isdir = not ('.' in name[1:] or name.startswith('.')) or name == '.hidden'
    if not isdir:
        os.makedirs(os.path.dirname(p), exist_ok=True)
        if not os.path.exists(p):
            open(p, 'w').close()
    else:
        os.makedirs(p, exist_ok=True)


def wipe():
    pc = pathconf()
    for c in pc['cfgs']:
        shutil.rmtree(pc['roots'][c], ignore_errors=True)
    _state.update(univ=None, junk=False)


def ensure(univ, junk):
    """materialise universe `univ` (and its junk) in every path configuration"""
    load_tables()
    pc = pathconf()
    if _state['univ'] != univ:
        wipe()
        for c in pc['cfgs']:
            os.makedirs(pc['roots'][c], exist_ok=True)
            paths = []
            for e in UNIVERSES[univ]:
                sid = Sid('/'.join(dec(x) for x in e))
                p = sid.path(c) if sid else None
                if p:
                    paths.append(str(p))
            pset = set(paths)
            parents = set(os.path.dirname(q) for q in pset)
            for q in sorted(pset, key=len):
                _mk(q, isdir=True if q in parents else None)
        _state.update(univ=univ, junk=False)
    if junk != _state['junk']:
        for c in pc['cfgs']:
            for jp in JUNK[univ][c]:
                p = _unlex(jp, c)
                if junk:
                    _mk(p)
                else:
                    # remove exactly what the junk added (files, then now-empty folders)
                    if os.path.isdir(p):
                        shutil.rmtree(p, ignore_errors=True)
                    elif os.path.exists(p):
                        os.remove(p)
        _state['junk'] = junk


def listing(cfg):
    """the tree as it is: every path under the root, lexed"""
    pc = pathconf()
    root = pc['roots'][cfg]
    out = [lexpath(root, root, pc['lex'])] if os.path.isdir(root) else []
    for d, dirs, files in os.walk(root):
        for n in dirs + files:
            out.append(lexpath(os.path.join(d, n).replace(os.sep, '/'), root, pc['lex']))
    return out


def entity_list(cfg):
    """the list of Sids that corresponds to the tree (what FindInList is given)"""
    pc = pathconf()
    root = pc['roots'][cfg]
    L = []
    for d, dirs, files in os.walk(root):
        dirs[:] = [x for x in dirs if not x.startswith('.')]       # hidden names are sidecars / temporary files, never entities
        for n in dirs + [f for f in files if not f.startswith('.')]:
            s = Sid(path=os.path.join(d, n).replace(os.sep, '/'), config=cfg)
            if s:
                L.append(str(s))
    s = Sid(path=root, config=cfg)
    if s:
        L.append(str(s))
    return sorted(set(L))


def _run_finder(f, s):
    r, err = guard(lambda: list(f.find(s, as_sid=False)))
    o = dict(err=err, res=[_segs(x) for x in (r or [])])
    r2, err2 = guard(lambda: list(f.find(s, as_sid=True)))
    o['sid_same'] = (not err and not err2 and [str(x) for x in r2] == list(r) and all(isinstance(x, Sid) for x in r2))
    e1, errx = guard(lambda: f.exists(s))
    f1, errf = guard(lambda: f.find_one(s, as_sid=False))
    f2, errf2 = guard(lambda: f.find_one(s, as_sid=True))
    o['exists'] = dict(raised=errx, value=bool(e1))
    o['find_one'] = dict(raised=errf, value=_segs(f1) if f1 else [], none=(f1 is None))
    o['find_one_sid'] = dict(raised=errf2, string=enc(str(f2)) if not errf2 else '', typed=bool(f2) if not errf2 else False)
    return o


def _finders(L):
    return [('list', FindInList(L)), ('paths_local', FindInPaths('local')), ('paths_server', FindInPaths('server')),
            ('all', FindInAll())]


def op_finders(c):
    """C11 / C12 / C09: one search through every Finder, on the clean tree and on the tree with junk"""
    s = render_search(c['search'])
    pc = pathconf()
    o = dict(runs=[])
    for junk in (False, True):
        ensure(c['univ'], junk)
        L = entity_list(pc['default'])
        run = dict(junk=junk, L=[_segs(x) for x in L], finders=[])
        for name, f in _finders(L):
            d = _run_finder(f, s)
            d['name'] = name
            run['finders'].append(d)
        o['runs'].append(run)
    return o


# ----------------------------------------------------------------------------- sidecars, getters
DATA = {}


def _sidecar(p):
    """independent computation of the sidecar path: same folder, '.' + name with the last suffix replaced"""
    d, name = os.path.split(p)
    n2 = '.' + name
    i = n2.rfind('.')
    if i > 0:
        n2 = n2[:i]
    return os.path.join(d, n2 + pathconf()['suffix'])


def seed_data(univ):
    load_tables()
    if not DATA and os.environ.get('SPIL_UNIVERSES'):
        DATA.update(json.load(open(os.environ['SPIL_UNIVERSES'])).get('data', {}))
    pc = pathconf()
    for c in pc['cfgs']:
        for e, pairs in DATA.get(univ, []):
            sid = Sid('/'.join(dec(x) for x in e))
            p = sid.path(c) if sid else None
            if p and os.path.exists(str(p)):
                with open(_sidecar(str(p)), 'w') as f:
                    json.dump({k: v for k, v in pairs}, f)


def ensure_data(univ):
    ensure(univ, False)
    if _state.get('data') != univ:
        seed_data(univ)
        _state['data'] = univ


def _rec(d):
    return [[str(k), enc(v) if v is not None else '%None'] for k, v in d.items()]


ENC = {'str': str, 'uri': (lambda s: s.uri), 'none': (lambda s: None)}


def op_getter(c):
    """C16: GetFromPaths.get next to FindInPaths.find on the same tree; GetFromAll; get_one / get_data / get_attr"""
    ensure_data(c['univ'])
    s = render_search(c['search'])
    attrs = list(c['attrs']) or None
    encf = ENC[c['enc']]
    o = dict(raised='')
    found, r1 = guard(lambda: list(FindInPaths().find(s, as_sid=False)))
    got, r2 = guard(lambda: list(GetFromPaths().get(s, attributes=attrs, sid_encode=encf)))
    o['raised'] = r1 or r2
    o['found'] = [_segs(x) for x in (found or [])]
    o['got'] = [_rec(d) for d in (got or [])]
    one, r3 = guard(lambda: GetFromPaths().get_one(s, attributes=attrs, sid_encode=encf))
    o['get_one'] = _rec(one or {})
    o['raised'] = o['raised'] or r3
    if found:
        gd, r4 = guard(lambda: GetFromPaths().get_data(found[0], attributes=attrs, sid_encode=encf))
        ga, r5 = guard(lambda: GetFromPaths().get_attr(found[0], 'n'))
        gs, r5b = guard(lambda: GetFromPaths().get_attr(found[0], 'sid'))
        gs2, r5c = guard(lambda: GetFromAll().get_attr(found[0], 'sid'))
        o['get_attr_sid'] = [enc(gs) if gs is not None else '%None', enc(gs2) if gs2 is not None else '%None']
        r5 = r5 or r5b or r5c
        o['get_data'] = _rec(gd or {})
        o['get_attr'] = enc(ga) if ga is not None else '%None'
        o['raised'] = o['raised'] or r4 or r5
    else:
        o['get_data'] = []
        o['get_attr_sid'] = []
        o['get_attr'] = '%None'
    allr, r6 = guard(lambda: list(GetFromAll().get(s, sid_encode=str)))
    o['raised'] = o['raised'] or r6
    o['all_sids'] = [enc(d.get('sid', '')) for d in (allr or [])]
    # GetFromAll with the same attributes and encoder as GetFromPaths above
    allr2, r7 = guard(lambda: list(GetFromAll().get(s, attributes=attrs, sid_encode=encf)))
    o['raised'] = o['raised'] or r7
    o['all_recs'] = [_rec(d) for d in (allr2 or [])]
    return o


def op_sidreads(c):
    """C12: exists / children / siblings of one Sid on the materialised universe"""
    ensure(c['univ'], False)
    sid = Sid('/'.join(dec(x) for x in c['segs']))
    pc = pathconf()
    o = dict(L=[_segs(x) for x in entity_list(pc['default'])])
    v, r = guard(lambda: sid.exists())
    o['exists'] = dict(raised=r, value=bool(v))
    ch, r = guard(lambda: list(sid.children()))
    o['children'] = dict(raised=r, res=[_segs(x) for x in (ch or [])])
    sb, r = guard(lambda: list(sid.siblings()))
    o['siblings'] = dict(raised=r, res=[_segs(x) for x in (sb or [])])
    return o


def op_algebrafs(c):
    """C10 on the real finders: the search and its derived searches through FindInPaths (both configurations) and FindInAll"""
    ensure(c['univ'], False)
    pc = pathconf()
    L = entity_list(pc['default'])
    o = dict(runs=[])
    for name, f in _finders(L):
        def run(search):
            s = render_search(search)
            r, err = guard(lambda: list(f.find(s, as_sid=False)))
            return dict(err=err, res=[_segs(x) for x in (r or [])])
        d = run(c['search'])
        d['parts'] = [run(p) for p in c['parts']]
        d['name'] = name
        o['runs'].append(d)
    return o


def op_getlast(c):
    """C09: Sid.get_last(key) is the single answer of the '>' search - before and after the data changes"""
    ensure(c['univ'], False)
    s = '/'.join(dec(x) for x in c['segs'])
    key = c['key']
    pc = pathconf()
    a, r1 = guard(lambda: Sid(s).get_last(key))
    o = dict(raised=r1, first=snap(a) if not r1 else snap(None))
    # the data changes: a greater value appears next to the Sid (created directly on disk by the harness)
    bumped = Sid(s).get_with(**{key: c['bump']})
    made = []
    for cfg in pc['cfgs']:
        p = bumped.path(cfg) if bumped else None
        if p and not p.exists():
            p.mkdir(parents=True)
            made.append(p)
    b, r2 = guard(lambda: Sid(s).get_last(key))
    o['second'] = snap(b) if not r2 else snap(None)
    o['raised'] = o['raised'] or r2
    o['bumped'] = snap(bumped)
    o['created'] = bool(made)
    for p in made:
        p.rmdir()
    c_, r3 = guard(lambda: Sid(s).get_last(key))
    o['third'] = snap(c_) if not r3 else snap(None)
    return o
