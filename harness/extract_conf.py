"""Raw configuration -> conf.json for the TLA+ specification.

Runs in a fresh interpreter with ONLY the configuration directory on sys.path: it imports
the raw configuration modules (never spil) and applies no spil logic - no extrapolation,
no pattern replacement, no typing.  The only semantics contributed here is Python's
re.fullmatch of one placeholder pattern against one vocabulary token (the `accept` relation).

usage: extract_conf.py <confdir> <out.json> [<extra_tokens.json>]
"""
import sys, json, re, copy, importlib, itertools

confdir, out = sys.argv[1], sys.argv[2]
extra_tokens = json.load(open(sys.argv[3])) if len(sys.argv) > 3 and sys.argv[3] else []
sys.path.insert(0, confdir)

SEP = '__'          # spil.conf.global_conf.sidtype_keytype_sep (a library constant, not configuration)
SYMBOLS = ["*", ",", ">", "<", "**"]   # spil.conf.global_conf.search_symbols
DEFAULT_EXPR = '[^/]*'                 # resolva's default placeholder expression

_SAFE = set(chr(c) for c in range(32, 127)) - set('%"\\')


def enc(s):
    return ''.join(ch if ch in _SAFE else ''.join('%%%02X' % b for b in ch.encode('utf-8')) for ch in s)


def dec(s):
    return re.sub(r'(?:%[0-9A-Fa-f]{2})+', lambda m: bytes(int(h, 16) for h in m.group(0)[1:].split('%')).decode('utf-8', 'replace'), s)


def ph_key(ph):
    return ph[1:-1].split(':', 1)[0]


def ph_pat(ph):
    inner = ph[1:-1]
    return inner.split(':', 1)[1] if ':' in inner else None


# ---- sid configuration: snapshot BEFORE any path configuration is imported (spil_fs_conf
# updates the nested key_patterns dictionaries of spil_sid_conf in place).
sc = importlib.import_module('spil_sid_conf')
sid_templates = copy.deepcopy(dict(sc.sid_templates))
sid_kp = copy.deepcopy(dict(sc.key_patterns))
conf = {
    'sep': SEP,
    'symbols': SYMBOLS,
    'templates': [dict(name=k, base=k.split(SEP)[0], ph=v.split('/')) for k, v in sid_templates.items()],
    'to_extrapolate': list(sc.to_extrapolate),
    'key_patterns': [dict(sel=sel, pairs=[[f, r] for f, r in d.items()]) for sel, d in sid_kp.items()],
    'key_types': [dict(base=k, keys=list(v)) for k, v in sc.key_types.items()],
    'leaf': [dict(base=str(k), key=v) for k, v in sc.leaf_keys.items() if k is not None],
    'alias': [dict(name=k, members=list(v)) for k, v in sc.extension_alias.items()],
    'narrow': [],
    'projects': list(getattr(sc, 'projects', [])),
}
for base, q in sc.basetyped_search_narrowing.items():
    pairs = [p.split('=', 1) for p in q.split('&') if p]
    conf['narrow'].append(dict(base=base, pairs=pairs))

phs = set()
for t in conf['templates']:
    phs.update(t['ph'])
for e in conf['key_patterns']:
    for f, r in e['pairs']:
        phs.add(f)
        phs.add(r)

# ---- path configurations
dc = importlib.import_module('spil_data_conf')
conf['path_configs'] = list(dc.path_configs.keys())
conf['default_path_config'] = dc.default_path_config
conf['data_suffix'] = getattr(dc, 'path_data_suffix', '.data.json')
conf['paths'] = {}
litchars = set()
raw_path_modules = {}
for name, modname in dc.path_configs.items():
    m = importlib.import_module(modname)
    raw_path_modules[name] = m
for name, m in raw_path_modules.items():
    tpls = dict(m.path_templates)
    root = min((v.split('{')[0] for v in tpls.values()), key=len).rstrip('/')
    for v in tpls.values():
        rest = v[len(root):]
        for lit in re.split(r'\{[^}]*\}', rest):
            litchars.update(ch for ch in lit if not ch.isalnum() and ch != '/')
    conf['paths'][name] = dict(root=root)
seps = ''.join(sorted(litchars))
conf['pathseps'] = seps
lexre = re.compile('([' + re.escape(seps) + '])') if seps else None


def lex(s):
    if not lexre:
        return [s] if s != '' else []
    return [x for x in lexre.split(s) if x != '']


def parts(seg):
    res = []
    for mm in re.finditer(r'(\{[^}]*\})|([^{]+)', seg):
        if mm.group(1):
            res.append(dict(kind='ph', text=mm.group(1)))
        else:
            res.extend(dict(kind='lit', text=x) for x in lex(mm.group(2)))
    return res


vocab = set()
for name, m in raw_path_modules.items():
    tpls = dict(m.path_templates)
    root = conf['paths'][name]['root']
    T = []
    for k, v in tpls.items():
        rest = v[len(root):].strip('/')
        segs = [[dict(kind='lit', text='ROOT')]] + [parts(s) for s in rest.split('/') if s != '']
        T.append(dict(name=k, segs=segs))
        for s in segs:
            for p in s:
                if p['kind'] == 'ph':
                    phs.add(p['text'])
                else:
                    vocab.add(p['text'])
    kp = [dict(sel=sel, pairs=[[f, r] for f, r in d.items()]) for sel, d in m.key_patterns.items()]
    for e in kp:
        for f, r in e['pairs']:
            phs.add(f)
            phs.add(r)
    mapping = [dict(key=k, pairs=[[a, b] for a, b in d.items()]) for k, d in m.path_mapping.items()
               if isinstance(k, str)]
    for mp in mapping:
        for a, b in mp['pairs']:
            vocab.add(a)
            vocab.add(b)
    conf['paths'][name].update(templates=T, key_patterns=kp, mapping=mapping,
                               defaults=[[k, v] for k, v in m.path_defaults.items()],
                               search_path_mapping=[[k, v] for k, v in getattr(m, 'search_path_mapping', {}).items()])
    for k, v in m.path_defaults.items():
        vocab.add(v)

# ---- vocabulary
def digit_variants(alt):
    n = alt.count(r'\d')
    if n == 0:
        return [alt]
    outs = []
    for val in (1, 2, 3, 10, 20, 30, 998, 999):
        s = ('%0' + str(n) + 'd') % val
        if len(s) > n:
            s = '9' * n
        a = alt
        for ch in s:
            a = a.replace(r'\d', ch, 1)
        outs.append(a)
    return outs


def alternatives(pat):
    p = pat
    if p.startswith('(') and p.endswith(')'):
        p = p[1:-1]
    alts, depth, cur = [], 0, ''
    i = 0
    while i < len(p):
        ch = p[i]
        if ch == '\\' and i + 1 < len(p):
            cur += p[i:i + 2]
            i += 2
            continue
        if ch == '(':
            depth += 1
        elif ch == ')':
            depth -= 1
        if ch == '|' and depth == 0:
            alts.append(cur)
            cur = ''
        else:
            cur += ch
        i += 1
    alts.append(cur)
    res = []
    for a in alts:
        for v in digit_variants(a):
            v = re.sub(r'\\(.)', r'\1', v)
            res.append(v)
    return res


closed_by_key = {}
for ph in phs:
    pat = ph_pat(ph)
    if pat is not None and pat != DEFAULT_EXPR:
        try:
            cands = [c for c in alternatives(pat) if re.fullmatch(pat, c)]
        except re.error:
            cands = []
        vocab.update(cands)
        closed_by_key.setdefault(ph_key(ph), set()).update(cands)
for a in conf['alias']:
    vocab.add(a['name'])
    vocab.update(a['members'])
OPEN = ['ophelia', 'oph', 'oph-x', 'oph_elia', 'gertrude.b', 'rain+', 'node1', 'x']
JUNK = ['junk', '', 'v1', 'V001', 'sq10', '**', '*', '>', '<', 'a,s', 'hamlet%0A', '%0Ahamlet', 'ham%09let', '%00', 'o*']
vocab.update(OPEN)
vocab.update(JUNK)
vocab.update(SYMBOLS)
vocab.update(extra_tokens)
vocab = sorted(vocab)
conf['vocab'] = vocab
conf['open_values'] = OPEN
# a small edit vocabulary for the quick tiers: one or two representatives per class
per_key = []
for k in sorted(closed_by_key):
    c = sorted(x for x in closed_by_key[k] if x not in SYMBOLS)
    per_key.extend(c[:2])
conf['edit_vocab'] = sorted(set(per_key + OPEN[:3] + JUNK + [a['name'] for a in conf['alias']][:2]))
conf['qsafe'] = [v for v in vocab if re.fullmatch(r'[A-Za-z0-9_.*>,-]+', v)]
conf['junk'] = JUNK

accept = {}
for ph in sorted(phs):
    pat = ph_pat(ph)
    if pat is None or pat == DEFAULT_EXPR:
        accept[ph] = dict(any=True, toks=[])
    else:
        p2 = pat.replace('\\{', '{').replace('\\}', '}')
        try:   # concrete values first, search symbols last (families pick the first N)
            toks = [v for v in vocab if re.fullmatch(p2, dec(v))]
            accept[ph] = dict(any=False, toks=[v for v in toks if v not in SYMBOLS] + [v for v in toks if v in SYMBOLS])
        except re.error:
            accept[ph] = dict(any=False, toks=[])
conf['accept'] = accept
conf['phkey'] = {ph: ph_key(ph) for ph in sorted(phs)}
chars = set()
for v in vocab:
    chars.update(dec(v))
chars.update(chr(c) for c in range(32, 127))
conf['charcode'] = {enc(ch): ord(ch) for ch in sorted(chars) if ch in _SAFE}
json.dump(conf, open(out, 'w'), indent=1)
print(json.dumps(dict(templates=len(conf['templates']), phs=len(phs), vocab=len(vocab),
                      paths={k: len(v['templates']) for k, v in conf['paths'].items()}, seps=seps)))
