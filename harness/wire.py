"""Wire format between TLC and the real spil: rendering of structured inputs to strings
and of spil objects to JSON.  No spil semantics: joining and splitting on separators only."""
import re

_SAFE = set(chr(c) for c in range(32, 127)) - set('%"\\')


def enc(s):
    if s is None:
        return ''
    return ''.join(ch if ch in _SAFE else ''.join('%%%02X' % b for b in ch.encode('utf-8')) for ch in str(s))


def dec(s):
    if '%' not in s:
        return s
    if s == '%None':
        return s
    # %XX are the UTF-8 bytes of the character
    return re.sub(r'(?:%[0-9A-Fa-f]{2})+', lambda m: bytes(int(h, 16) for h in m.group(0)[1:].split('%')).decode('utf-8', 'replace'), s)


def venc(v):
    """attribute VALUES keep their JSON type on the wire: None, booleans, numbers and strings are different values"""
    if v is None:
        return '~None'
    if v is True:
        return '~True'
    if v is False:
        return '~False'
    if isinstance(v, int):
        return '~i%d' % v
    if isinstance(v, float):
        return '~f%r' % v
    if isinstance(v, str):
        return enc(v)
    return '~json' + enc(__import__('json').dumps(v, sort_keys=True))


def vdec(t):
    if t == '~None':
        return None
    if t == '~True':
        return True
    if t == '~False':
        return False
    if t.startswith('~i'):
        return int(t[2:])
    if t.startswith('~f'):
        return float(t[2:])
    if t.startswith('~json'):
        return __import__('json').loads(dec(t[5:]))
    return dec(t)


def RAISED(e):
    """where an unexpected exception came from (innermost frame inside spil/resolva), for findings"""
    tb = e.__traceback__
    last = ''
    while tb is not None:
        fn = tb.tb_frame.f_code.co_filename
        if '/spil/' in fn or '/resolva/' in fn or 'spil_' in fn:
            last = '%s:%s' % (fn.split('/')[-1], tb.tb_frame.f_code.co_name)
        tb = tb.tb_next
    return last


def render_sid(c):
    """[uri : type prefixes, segs, query : raw pairs] -> the string handed to Sid()"""
    body = '/'.join(dec(x) for x in c.get('segs', []))
    s = ':'.join([dec(u) for u in c.get('uri', [])] + [body]) if c.get('uri') else body
    q = c.get('query') or []
    if q:
        s += '?' + '&'.join(dec(k) + '=' + dec(v) for k, v in q)
    return s


def render_search(c):
    """search = [segs : list of alternatives lists, query : [[key, [alternatives]]]]"""
    s = '/'.join(','.join(dec(a) for a in alts) for alts in c['segs'])
    q = c.get('query') or []
    if q:
        s += '?' + '&'.join(dec(k) + '=' + ','.join(dec(v) for v in vs) for k, vs in q)
    return s


def snap(sid):
    """(type, ordered fields, string) of a Sid; None -> the empty snapshot"""
    if sid is None:
        return dict(type='', fields=[], string='')
    return dict(type=sid.type or '', fields=[[k, enc(v)] for k, v in sid.fields.items()], string=enc(str(sid)))


def make_lexer(seps):
    rx = re.compile('([' + re.escape(seps) + '])') if seps else None

    def lex(s):
        if rx is None:
            return [s] if s != '' else []
        return [x for x in rx.split(s) if x != '']
    return lex


def lexpath(p, root, lex):
    """path string -> list of segments, each a list of lexemes; the configured root is 'ROOT'"""
    p = str(p)
    if p == root or p.startswith(root + '/'):
        rest = p[len(root):].lstrip('/')
        return [['ROOT']] + ([[enc(x) for x in lex(s)] for s in rest.split('/')] if rest else [])
    return [[enc(x) for x in lex(s)] if s else [''] for s in p.split('/')]


def unlexpath(path, root):
    segs = []
    for i, seg in enumerate(path):
        if i == 0 and seg == ['ROOT']:
            segs.append(root)
        else:
            segs.append(''.join(dec(x) for x in seg))
    return '/'.join(segs)
