"""Further property drivers (registered into checks.REGISTRY)."""
from __future__ import annotations
import json, os, random
from common import Env, Machinery, SEED
from pipeline import extract_conf, mc, calls_from_dump, execute, validate, trace_lines, tokens_of
from report import Report
import checks as K
import wire

REGISTRY = {}


def reg(fn):
    REGISTRY[fn.__name__[6:]] = fn
    return fn


def _no_seed(calls):
    return [c for c in calls if c.get('op') != 'seed']


def core_family(rep, env, conf, family, tier, what):
    calls = K.spec_to_code(rep, env, conf, 'MC_Core', 'MC_Core_%s_%s.cfg' % (family, tier), what, transform=_no_seed)
    # all calls on the same string (whatever the type or the constructor) go to the same interpreter
    key = (lambda c: '/'.join(c.get('segs') or c.get('a', {}).get('segs', [])))
    K.code_to_spec(rep, env, conf, calls, what + ' executed on the implementation', tag=family, shard_key=key)
    return calls


@reg
def check_C02(tier):
    rep = Report.get('C02', tier)
    env = Env()
    conf = extract_conf(env)
    calls = core_family(rep, env, conf, 'forms', tier, 'C02 family: every naturally typed string (product of value sets) x 10+ constructors')
    if not Report.redirect:
        run_driver(rep, env, 'the example Sids of the repository through every constructor', driver_calls(env, tier, ops=('forms',)), 'drv02')
    rep.exhaustive = True
    rep.guard(len([t for t in rep.cover if t.startswith('forms:')]) >= 15 or not calls, 'fewer than 15 types exercised')
    rep.assumptions = ['query round trip only for values without whitespace / URL metacharacters (qsafe tokens)',
                       'theorems checked by TLC on the spec: Canonical, DictFirstIsNatural, DictOrderIrrelevant, UriRoundTrip, QueryRoundTrip']
    return rep.done()


@reg
def check_C03(tier):
    rep = Report.get('C03', tier)
    env = Env()
    conf = extract_conf(env)
    calls = core_family(rep, env, conf, 'nav', tier, 'C03 family: every typed string x 6 constructors + untyped inputs')
    if not Report.redirect:
        run_driver(rep, env, 'the example Sids of the repository navigated (get_as, parent, /, walk)', driver_calls(env, tier, ops=('nav',)), 'drv03')
    rep.exhaustive = True
    rep.guard(any(t.endswith(':untyped') for t in rep.cover) or not calls, 'no untyped navigation exercised')
    rep.guard(len([t for t in rep.cover if t.startswith('nav:')]) >= 8 or not calls, 'not every constructor exercised')
    rep.assumptions = ['theorems checked by TLC on the spec: PrefixClosed, ParentLaws']
    return rep.done()


@reg
def check_C04(tier):
    rep = Report.get('C04', tier)
    env = Env()
    conf = extract_conf(env)
    c1 = core_family(rep, env, conf, 'query', 'quick', 'C04 family: typed Sids x query overlays of up to two pairs (trailing ? and get_with(query=))')
    if tier == 'thorough':
        # the deeper tier adds search Sids ('*' at every subset of positions) under every single-pair overlay
        c1 += core_family(rep, env, conf, 'query', 'thorough', 'C04 family: typed search Sids (every subset of positions starred) x one-pair overlays')
    c2 = core_family(rep, env, conf, 'getwith', 'quick', 'C04 family: typed Sids x keyword overlays of up to two pairs incl. None')
    if tier == 'thorough':
        c2 += core_family(rep, env, conf, 'getwith', 'thorough', 'C04 family: typed search Sids x one keyword overlay incl. None')
    rep.exhaustive = True
    need = ['NoType', 'OneType', 'ManyKeepsOld', 'ManySearchFirst']
    for b in need:
        rep.guard(any(t.endswith(':' + b) for t in rep.cover) or not c1, 'decision-table row %s never exercised' % b)
    rep.assumptions = ['theorems checked by TLC on the spec: AllOrNothing, OptionalNeverAdds, GetWithExact']
    return rep.done()


def _universes(env, conf):
    """the generated universes, printed by TLC from spec/Universe.tla, for the runner"""
    from common import tlc, parse_tla
    r = tlc('PrintUniverses', 'PrintUniverses.cfg', env={'SPIL_CONF_JSON': conf}, workers=1, timeout=300)
    out, junk, data = {}, {}, {}
    for v in r.printed():
        if isinstance(v, list) and v and v[0] == 'UNIVERSE':
            out[v[1]] = v[2]
        elif isinstance(v, list) and v and v[0] == 'JUNK':
            junk.setdefault(v[1], {})[v[2]] = v[3]
        elif isinstance(v, list) and v and v[0] == 'DATA':
            data[v[1]] = v[2]
    if not out:
        raise Machinery('no universes printed:\n' + r.out[-2000:])
    p = os.path.join(env.dir, 'universes.json')
    json.dump(dict(universes=out, junk=junk, data=data), open(p, 'w'))
    return p


def search_family(rep, env, conf, family, tier, what, keep=None, gt=True, max_calls=None):
    cfg = 'MC_Search_%s_%s%s.cfg' % (family, tier, '' if gt else '_nogt')
    calls = K.spec_to_code(rep, env, conf, 'MC_Search', cfg, what,
                           transform=(lambda cs: [c for c in cs if (keep is None or keep(c))]), max_calls=max_calls)
    if max_calls:
        rep.notes['replayed'] = 'TLC checked the whole family on the model; the quick tier replays a seeded sample of %d calls on the implementation (thorough replays all)' % max_calls
    uni = _universes(env, conf) if family != 'unfold' else ''
    trace = K.code_to_spec(rep, env, conf, calls, what + ' executed on the implementation', tag=family,
                           extra={'SPIL_UNIVERSES': uni})
    rep.last_trace = trace
    return calls


@reg
def check_C07(tier):
    rep = Report.get('C07', tier)
    env = Env()
    conf = extract_conf(env)
    calls = search_family(rep, env, conf, 'unfold', tier, 'C07 family: first string of every type x <= MaxEdits syntactic edits')
    # the two flags of unfold_search on a seeded sample of the same family (specification growth beyond the property's statement)
    rnd = random.Random(SEED)
    sample = rnd.sample(calls, min(len(calls), 3000 if tier == 'quick' else 20000))
    flagged = [dict(c, extrapolate=True) for c in sample[::2]] + [dict(c, uniquify=True) for c in sample[1::2]]
    if tier != 'c20':
        K.code_to_spec(rep, env, conf, flagged, 'unfold_search(s, do_extrapolate=True) / (s, do_uniquify=True) on a sample of the family', tag='unfoldflags')
    rep.exhaustive = True
    for t in ('unfold:error', 'unfold:nothing', 'unfold:one', 'unfold:many'):
        rep.guard(t in rep.cover or not calls, '%s never exercised' % t)
    rep.assumptions = ['theorems checked by TLC on the spec: UnfoldIsDenote (operational pipeline = declarative denotation), '
                       'ErrorOnlyWhenDenoted, AllTypedAndMatching, NoDoubleStarLeft, LeafOnlyAfterExpand']
    return rep.done()


def _has_gt(c):
    s = c['search']
    return any('>' in alts for alts in s['segs']) or any('>' in v for k, v in s['query'])


@reg
def check_C08(tier):
    rep = Report.get('C08', tier)
    env = Env()
    conf = extract_conf(env)
    calls = search_family(rep, env, conf, 'findlist', tier, 'C08 family: searches without ">" x generated universes (complete / leaf-only / noisy)', gt=False,
                          max_calls=(15000 if tier == 'quick' else None))
    # sid.match(s): True exactly when s would find the Sid in a list that holds only that Sid
    universes = json.load(open(_universes(env, conf)))['universes']
    rnd = random.Random(SEED + 7)
    mcalls = []
    observed = {}
    if getattr(rep, 'last_trace', None):
        with open(rep.last_trace) as f:
            for line in f:
                r_ = json.loads(line)
                if r_['obs'].get('res'):
                    observed[json.dumps(r_['call']['search'], sort_keys=True)] = r_['obs']['res']
    for c in rnd.sample(calls, min(len(calls), 2500 if tier == 'quick' else 30000)):
        # entries the search was observed to find (inputs only: the verdict is the specification's), and random ones
        hits = observed.get(json.dumps(c['search'], sort_keys=True), [])
        for e in rnd.sample(hits, min(2, len(hits))) + rnd.sample(universes[c['univ']], 2):
            mcalls.append(dict(op='match', search=c['search'], entry=e))
    # the Sid that the search ITSELF becomes when it is instanced with its query (the query value replaces the one search
    # symbol of the string): match must not answer by that identity where find would unfold the symbol differently
    for c in calls:
        sr = c['search']
        sym = [i for i, sg in enumerate(sr['segs']) if sg in (['*'], ['**'], ['>'])]
        if len(sym) == 1 and len(sr['query']) == 1 and len(sr['query'][0][1]) == 1 and all(len(sg) == 1 for sg in sr['segs']):
            v = sr['query'][0][1][0]
            mcalls.append(dict(op='match', search=sr, entry=[v if i == sym[0] else sg[0] for i, sg in enumerate(sr['segs'])]))
    K.code_to_spec(rep, env, conf, mcalls, 'sid.match(search) for sampled (search, entry) pairs of the family', tag='match')
    rep.exhaustive = True
    for t in ('findlist:star:found', 'findlist:star:nothing', 'findlist:error'):
        rep.guard(t in rep.cover or not calls, '%s never exercised' % t)
    rep.assumptions = ['names without glob metacharacters ([ ] ?)', 'universes of spec/Universe.tla (<= 140 entries)']
    return rep.done()


@reg
def check_C09(tier):
    rep = Report.get('C09', tier)
    env = Env()
    conf = extract_conf(env)
    calls = search_family(rep, env, conf, 'findlist', tier, 'C09 family: searches with ">" x universes whose names sort below "/"',
                          keep=_has_gt, gt=True)
    # the same operator on the real finders: '>' first, then any second edit, on materialised trees
    env.run('probe_routing.py', [conf])
    calls2 = K.spec_to_code(rep, env, conf, 'MC_Search', 'MC_Search_finders_gt_%s.cfg' % tier, 'C09 on FindInPaths / FindInAll: ">" then one more edit, over the store universes',
                            transform=lambda cs: [c for c in cs if _has_gt(c)], max_calls=(600 if tier == 'quick' else None))
    uni = _universes(env, conf)
    calls2.sort(key=lambda c: c['univ'])
    K.code_to_spec(rep, env, conf, calls2, '">" searches through FindInList / FindInPaths(local, server) / FindInAll on materialised trees',
                   tag='findersgt', extra={'SPIL_UNIVERSES': uni, 'SPIL_CONF_JSON': conf}, envs=store_envs(8, env), per=40, chunk=2000)
    # Sid.get_last(key): for the version-level Sids of the store universes (existing and missing ones), with a data change in between
    universes = json.load(open(uni))['universes']
    raw = json.load(open(conf))
    vkey = 'version'
    gl = []
    for u in sorted(k for k in universes if k.endswith(':complete')):
        ents = [e for e in universes[u] if len(e) == 6]
        for e in ents[: (12 if tier == 'quick' else len(ents))]:
            gl.append(dict(op='getlast', univ=u, segs=e, key=vkey, bump='v999'))
            gl.append(dict(op='getlast', univ=u, segs=e[:5] + ['v998'], key=vkey, bump='v999'))
    K.code_to_spec(rep, env, conf, gl, 'Sid.get_last("version") before and after a greater version appears on disk',
                   tag='getlast', extra={'SPIL_UNIVERSES': uni, 'SPIL_CONF_JSON': conf}, envs=store_envs(4, env), per=8, chunk=2000)
    rep.items = [it for it in rep.items if it['kind'] != 'finders' or not set(it['clauses']) <= {'finders_agree_despite_type_guess'}]
    rep.exhaustive = True
    rep.guard('findlist:gt:found' in rep.cover or not calls, 'no ">" search with a result exercised')
    rep.guard(any(t.startswith('finders:') and ':gt:found' in t for t in rep.cover) or not calls2, 'no ">" search with a result on the real finders')
    rep.notes['gt_precondition_false'] = rep.cover.get('findlist:gt-precondition-false', 0)
    rep.assumptions = ['the comparison applies where all unfolded forms carry ">" at one position (else counted as gt-precondition-false)']
    return rep.done()


@reg
def check_C10(tier):
    rep = Report.get('C10', tier)
    env = Env()
    conf = extract_conf(env)
    calls = search_family(rep, env, conf, 'algebra', tier, 'C10 family: (search, derived searches) by the five rewrite rules',
                          keep=lambda c: c.get('op') == 'algebra', gt=True, max_calls=(12000 if tier == 'quick' else None))
    # the same (search, derived searches) on FindInPaths (local, server) and FindInAll over materialised trees
    env.run('probe_routing.py', [conf])
    rnd = random.Random(SEED + 3)
    fs = [dict(c, op='algebrafs') for c in (rnd.sample(calls, min(len(calls), 500)) if tier == 'quick' else calls)]
    uni = _universes(env, conf)
    fs.sort(key=lambda c: c['univ'])
    K.code_to_spec(rep, env, conf, fs, 'the algebra on FindInList / FindInPaths(local, server) / FindInAll over materialised trees',
                   tag='algebrafs', extra={'SPIL_UNIVERSES': uni, 'SPIL_CONF_JSON': conf}, envs=store_envs(8, env), per=40, chunk=2000)
    rep.exhaustive = True
    for r in ('union:comma', 'union:alias', 'starstar', 'filter', 'literal'):
        rep.guard(any(t.startswith('algebra:' + r) for t in rep.cover) or not calls, 'rule %s never exercised' % r)
    rep.assumptions = ['filter / literal / ** rules generated only where the query does not add a level (overlays belong to C04)',
                       'theorem checked by TLC on the spec: AlgebraHolds over the generated universes']
    return rep.done()


@reg
def check_C19(tier):
    rep = Report.get('C19', tier)
    env = Env()
    conf = extract_conf(env)

    def to_calls(cfgs):
        out = []
        for c in cfgs:
            c = dict(c)
            tox = c['toX']
            c['toX'] = sorted(tox['__set__']) if isinstance(tox, dict) else list(tox)
            out.append(dict(op='extrapolate', cfg=c))
        return out
    calls = K.spec_to_code(rep, env, conf, 'MC_Extrapolate', 'MC_Extrapolate_quick.cfg',
                           'grammar of template configurations (<= 2 entries x extrapolated types x one selector)',
                           var='cfg', transform=to_calls)
    if tier == 'thorough':
        calls += K.spec_to_code(rep, env, conf, 'MC_Extrapolate', 'MC_Extrapolate_thorough2.cfg',
                                'grammar: <= 2 entries x extrapolated types x up to two selectors of up to two pairs',
                                var='cfg', transform=to_calls)
        calls += K.spec_to_code(rep, env, conf, 'MC_Extrapolate', 'MC_Extrapolate_thorough.cfg',
                                'grammar: <= 3 entries x up to two extrapolated types (no selectors)',
                                var='cfg', transform=to_calls, timeout=6000)
    # the shipped configuration itself: the raw templates of the working tree
    raw = json.load(open(conf))
    calls.append(dict(op='extrapolate', cfg=dict(templates=raw['templates'], toX=raw['to_extrapolate'], kps=raw['key_patterns'])))
    K.code_to_spec(rep, env, conf, calls, 'extrapolate_templates + pattern_replacing on every configuration', tag='c19')
    rep.exhaustive = True
    rep.guard('extrapolate:many' in rep.cover or not calls, 'no configuration with two extrapolated types')
    rep.guard(any(t.endswith(':replace') for t in rep.cover) or not calls, 'no pattern replacement exercised')
    rep.assumptions = ['theorems checked by TLC on the spec: ExtrapolationOK (KeptInOrder, NoDuplicates, OnlyPrefixesAdded, LongestFirst, Complete), ReplaceScoped',
                       'grammar: 4 hierarchies sharing prefixes, chains of 1-5 keys, explicit / bare / colliding names, <= MaxEntries entries']
    return rep.done()


def path_family(rep, env, conf, family, tier, what, first_cfg=None, reverse=False, tag=None, cap=None, twice=False):
    def tr(cs):
        out = []
        for c in cs:
            if reverse:
                c = dict(c, reverse=True)
            out.append(c)
        return out
    calls = K.spec_to_code(rep, env, conf, 'MC_Path', 'MC_Path_%s_%s.cfg' % (family, tier), what, transform=tr)
    if twice:
        # every Sid is asked again, in the same interpreter, after all the others (in a seeded random order)
        second = list(calls)
        random.Random(SEED + 5).shuffle(second)
        calls = calls + second
    extra = {'SPIL_CONF_JSON': conf}
    if first_cfg:
        extra['SPIL_FIRST_CFG'] = first_cfg
    if cap:
        extra['SPIL_CACHE_CAP'] = str(cap)
    K.code_to_spec(rep, env, conf, calls, what + ' executed on the implementation', tag=tag or family, extra=extra,
                   per=(10 ** 9 if twice else 500))
    return calls


@reg
def check_C05(tier):
    rep = Report.get('C05', tier)
    env = Env()
    conf = extract_conf(env)
    calls = path_family(rep, env, conf, 'topath', tier, 'C05 family: value variants of every type x every path configuration (local first)',
                        first_cfg='local', tag='tp_local')
    path_family(rep, env, conf, 'topath', tier, 'C05 family, server configuration loaded and asked first', first_cfg='server',
                reverse=True, tag='tp_server')
    path_family(rep, env, conf, 'topath', tier, 'C05 family with the cache capacity reduced to 3 (every call evicts)', first_cfg='local',
                tag='tp_cap3', cap=3, twice=True)
    if not Report.redirect:
        run_driver(rep, env, 'the example Sids of the repository: path in every configuration and back', driver_calls(env, tier, ops=('topath',)), 'drv05')
    rep.exhaustive = True
    rep.guard(len([t for t in rep.cover if t.startswith('topath:')]) >= 12 or not calls, 'fewer than 12 path-bearing types exercised')
    rep.guard('topath:nopath' in rep.cover and 'topath:untyped' in rep.cover or not calls, 'no-path / untyped case not exercised')
    rep.assumptions = ['theorems checked by TLC on the spec: RoundTrip (hence injectivity on the family, unambiguous parse), SameUpToRoot',
                       'every call is made positionally, by keyword, twice, and through Sids built by three other constructors']
    return rep.done()


@reg
def check_C06(tier):
    rep = Report.get('C06', tier)
    env = Env()
    conf = extract_conf(env)
    calls = path_family(rep, env, conf, 'frompath', tier, 'C06 family: valid paths x lexeme-level edits, both configurations')
    rep.exhaustive = True
    for t in ('typed', 'untyped'):
        rep.guard(any(k.endswith(':' + t) for k in rep.cover) or not calls, 'no %s path exercised' % t)
    rep.assumptions = ['theorem checked by TLC on the spec: OwnerOnly (a typed result formats back to the path)',
                       'strict (type, fields) comparison is dropped where the spec finds the parse ambiguous; the owner clause is kept']
    return rep.done()


def store_envs(n, src_env):
    """one private configuration copy (hence one private pair of file trees) per shard"""
    return [Env(repo=src_env.repo) for _ in range(n)]


@reg
def check_C11(tier):
    rep = Report.get('C11', tier)
    env = Env()
    conf = extract_conf(env)
    env.run('probe_routing.py', [conf])
    calls = K.spec_to_code(rep, env, conf, 'MC_Search', 'MC_Search_finders_%s.cfg' % ('quick' if tier == 'c20' else tier),
                           'C11 family: searches x store universes; FindersAgree and JunkChangesNothing on the model')
    if tier == 'c20':
        # under a generated configuration (quick tier of C20): the searches with several '*' levels next to a literal
        # (where a path pattern can over-match) and a seeded sample of the others run on the real finders
        multi = [c for c in calls if sum(1 for sg in c['search']['segs'] if sg == ['*']) >= 2]
        rest = [c for c in calls if c not in multi]
        calls = multi + random.Random(SEED + 11).sample(rest, min(len(rest), 150))
    uni = _universes(env, conf)
    calls.sort(key=lambda c: c['univ'])
    K.code_to_spec(rep, env, conf, calls, 'every search through FindInList / FindInPaths(local, server) / FindInAll on materialised trees, clean and with junk',
                   tag='finders', extra={'SPIL_UNIVERSES': uni, 'SPIL_CONF_JSON': conf}, envs=store_envs(8, env), per=40, chunk=2000)
    rep.exhaustive = True
    rep.guard(any(t.startswith('finders:pathbacked') and t.endswith('found') for t in rep.cover) or not calls, 'no path-backed search with results')
    rep.guard(any(t.startswith('finders:mixed') for t in rep.cover) or not calls, 'no constant-backed level exercised')
    rep.assumptions = ['universes and junk are those of spec/Universe.tla and spec/Store.tla (JunkOf)',
                       'agreement is claimed for type-complete searches over path-backed, non-constant types; constant-backed levels are validated against the constants semantics of the spec']
    return rep.done()


def store_family(rep, env, conf, family, tier, what, nenv=4, per=20):
    env.run('probe_routing.py', [conf])
    calls = K.spec_to_code(rep, env, conf, 'MC_Store', 'MC_Store_%s_%s.cfg' % (family, tier), what, transform=_no_seed)
    uni = _universes(env, conf)
    calls.sort(key=lambda c: c['univ'])
    K.code_to_spec(rep, env, conf, calls, what + ' on materialised trees', tag=family,
                   extra={'SPIL_UNIVERSES': uni, 'SPIL_CONF_JSON': conf}, envs=store_envs(nenv, env), per=per, chunk=2000)
    return calls


@reg
def check_C16(tier):
    rep = Report.get('C16', tier)
    env = Env()
    conf = extract_conf(env)
    calls = store_family(rep, env, conf, 'getter', tier, 'C16 family: searches x attribute subsets x sid encoders')
    rep.exhaustive = True
    for t in ('many', 'one', 'nothing'):
        rep.guard(any(k.endswith(':' + t) for k in rep.cover) or not calls, 'no getter call with %s results' % t)
    rep.assumptions = ['attribute data seeded by the harness from SideDataOf of spec/Store.tla (sidecar JSON written directly)',
                       'order is compared against FindInPaths.find run in the same process on the same tree']
    return rep.done()


@reg
def check_C12(tier):
    rep = Report.get('C12', tier)
    env = Env()
    conf = extract_conf(env)
    calls = store_family(rep, env, conf, 'sidreads', tier, 'C12 family: exists / children / siblings of every concrete Sid of the universe, existing or not')
    # finder-level part: exists / find_one / as_sid agree with find, for every Finder (clauses c12_* of the finders op)
    calls2 = K.spec_to_code(rep, env, conf, 'MC_Search', 'MC_Search_finders_%s.cfg' % tier,
                            'C12 finder part: searches x store universes')
    uni = _universes(env, conf)
    calls2.sort(key=lambda c: c['univ'])
    K.code_to_spec(rep, env, conf, calls2, 'exists / find_one / as_sid=False against find, on four Finders',
                   tag='finders12', extra={'SPIL_UNIVERSES': uni, 'SPIL_CONF_JSON': conf}, envs=store_envs(8, env), per=40, chunk=2000)
    # histories: exists() of every Sid of the write alphabet (incl. a constant-backed state) asked BEFORE and after the
    # entities are created - a sample of the Writer behaviours of StoreDyn.tla; C12 owns the 'exists' clause of the reads
    if not Report.redirect:
        r = mc('StoreDyn', 'StoreDyn_quick.cfg', conf, dump=True)
        rep.add_tlc(r, 'Writer behaviours of StoreDyn_quick.cfg (reads after creates)')
        K.tlc_ok(r, 'StoreDyn')
        hists = calls_from_dump(r.dumpfile, var='hist')
        depth = max(len(h) for h in hists)
        ex = [h for h in hists if len(h) == depth and any(st['op'] == 'create' for st in h)]
        behaviours = random.Random(SEED + 12).sample(ex, min(len(ex), 80 if tier == 'quick' else 1500))
        alphabet = sorted({tuple(st['segs']) for h in behaviours for st in h})
        dyn = [dict(id=i, steps=h, alphabet=[list(a) for a in alphabet]) for i, h in enumerate(behaviours)]
        n0 = len(rep.items)
        K.code_to_spec(rep, env, conf, dyn, 'exists() of the whole alphabet before and after every create / update, replayed on a scratch tree',
                       module='StoreTrace', script='run_store_dyn.py', tag='dyn12', extra={'SPIL_CONF_JSON': conf},
                       envs=store_envs(8, env), per=10, chunk=3000, split_on='"dynreset"')
        rep.items = rep.items[:n0] + [it for it in rep.items[n0:] if 'exists' in it['clauses'] or 'harness' in it['clauses']]
    rep.exhaustive = True
    rep.guard(any(t.startswith('sidreads:exists') for t in rep.cover) and any(t.startswith('sidreads:missing') for t in rep.cover) or not calls,
              'existing and missing Sids not both exercised')
    rep.assumptions = ['theorems checked by TLC on the spec: ChildrenAreChildren, ExistingChildrenFound, LeafHasNoChildren, SiblingsShareParent, SelfAmongSiblings, ParentClosed',
                       'reads after creates (histories) are part of the C15 behaviours']
    # failures of the finder agreement itself belong to C11; C12 owns the c12_*, sidreads clauses
    rep.items = [it for it in rep.items if it['kind'] != 'finders' or any(c.startswith('c12_') or c in ('noraise', 'harness') for c in it['clauses'])]
    return rep.done()


def _sim_behaviours(module, cfg, conf, num, depth, var='hist', extra_env=None):
    """random behaviours from TLC -simulate: the value of `var` in the last state of every generated trace"""
    import glob, re
    from common import scratch, tlc, parse_tla
    d = scratch('sim-')
    env = {'SPIL_CONF_JSON': conf}
    env.update(extra_env or {})
    r = tlc(module, cfg, env=env, workers=1, timeout=1200,
            extra=['-simulate', 'file=%s/tr,num=%d' % (d, num), '-depth', str(depth), '-seed', str(SEED + 1)])
    out = []
    for f in sorted(glob.glob(d + '/tr_*')):
        txt = open(f).read()
        blocks = txt.split('STATE_')
        last = blocks[-1]
        m = re.search(r'(?ms)^/\\ %s = (.*?)(?=^/\\ |\Z)' % var, last)
        if m:
            body = m.group(1).split('\n====')[0]
            out.append(parse_tla(body))
    return r, out


@reg
def check_C15(tier):
    rep = Report.get('C15', tier)
    env = Env()
    conf = extract_conf(env)
    env.run('probe_routing.py', [conf])
    r = mc('StoreDyn', 'StoreDyn_%s.cfg' % tier, conf, dump=True)
    rep.add_tlc(r, 'all Writer behaviours up to the depth of StoreDyn_%s.cfg (ExistsIff, FailChangesNothing, WriteIsLocal, ...)' % tier)
    if r.violation:
        rep.fail('spec-invariant', 'TLC: ' + K._tlc_error(r.out), record=dict(tlc_tail=r.out[-3000:]))
        return rep.done()
    K.tlc_ok(r, 'StoreDyn')
    hists = calls_from_dump(r.dumpfile, var='hist')
    depth = max(len(h) for h in hists)
    behaviours = [h for h in hists if len(h) == depth]
    nsim, dsim = (150, 10) if tier == 'quick' else (600, 40)
    rs, sims = _sim_behaviours('StoreDyn', 'StoreDyn_gen.cfg', conf, nsim, dsim)
    rep.add_tlc(rs, 'random Writer behaviours (-simulate num=%d depth=%d)' % (nsim, dsim))
    behaviours += [h for h in sims if h]
    cap = 300 if tier == 'quick' else 6000
    if len([h for h in behaviours if len(h) == depth]) > cap:
        # all behaviours were checked by TLC on the model; a seeded sample of the exhaustive ones is replayed
        # (the thorough family has over a million behaviours of three calls; each replayed step reads the whole alphabet twice
        #  and once more from a new process)
        rnd = random.Random(SEED)
        ex = [h for h in behaviours if len(h) == depth]
        behaviours = rnd.sample(ex, cap) + [h for h in behaviours if len(h) != depth]
        rep.notes['replayed'] = 'TLC checked every behaviour of the family on the model; %d of the %d exhaustive behaviours (seeded sample) and all simulated ones are replayed on the implementation' % (cap, len(ex))
    if os.environ.get('VERIF_LIMIT'):
        behaviours = behaviours[:int(os.environ['VERIF_LIMIT'])]
    alphabet = sorted({tuple(st['segs']) for h in behaviours for st in h})
    calls = [dict(id=i, steps=h, alphabet=[list(a) for a in alphabet]) for i, h in enumerate(behaviours)]
    K.code_to_spec(rep, env, conf, calls, 'every behaviour replayed with WriteToPaths on a scratch tree; state and reads logged after every call',
                   module='StoreTrace', script='run_store_dyn.py', tag='dyn', extra={'SPIL_CONF_JSON': conf},
                   envs=store_envs(16, env), per=10, chunk=3000, split_on='"dynreset"')
    rep.exhaustive = True
    rep.notes['behaviours'] = len(behaviours)
    rep.notes['exhaustive_depth'] = depth
    for t in ('dyn:create:ok', 'dyn:create:refused', 'dyn:update:ok', 'dyn:update:refused', 'dynfresh'):
        rep.guard(t in rep.cover or not calls, '%s never exercised' % t)
    rep.assumptions = ['alphabet of 7 Sids derived from the configuration (two files sharing a sidecar, a file of another type, folders, a sibling, a level without path)',
                       'set() and update() are both driven from the Update action (set with one attribute, set with keywords, update with a mapping)']
    return rep.done()


VTOKENS = ['v%03d' % n for n in list(range(0, 21)) + list(range(996, 1002))]


@reg
def check_C18(tier):
    rep = Report.get('C18', tier)
    env = Env()
    conf = extract_conf(env, extra_tokens=VTOKENS)
    env.run('probe_routing.py', [conf])
    r = mc('VersionDyn', 'VersionDyn_%s.cfg' % tier, conf, dump=True)
    rep.add_tlc(r, 'all publish behaviours from every initial version set of VersionDyn_%s.cfg (LastIsGreatest, NextIsSuccessor, NewIsFresh, NewIsSuccessorOfLast, OtherFieldsKept, Monotone)' % tier)
    if r.violation:
        rep.fail('spec-invariant', 'TLC: ' + K._tlc_error(r.out), record=dict(tlc_tail=r.out[-3000:]))
        return rep.done()
    K.tlc_ok(r, 'VersionDyn')
    hists = calls_from_dump(r.dumpfile, var='hist')
    depth = max(len(h) for h in hists)
    behaviours = [h for h in hists if len(h) == depth]
    nsim, dsim = (30, 9) if tier == 'quick' else (200, 9)
    if tier == 'quick' and len(behaviours) > 320:
        behaviours = random.Random(SEED).sample(behaviours, 320)
    rs, sims = _sim_behaviours('VersionDyn', 'VersionDyn_gen.cfg', conf, nsim, dsim)
    rep.add_tlc(rs, 'random publish sequences of up to 8 steps (-simulate num=%d)' % nsim)
    behaviours += [h for h in sims if h]
    if os.environ.get('VERIF_LIMIT'):
        behaviours = behaviours[:int(os.environ['VERIF_LIMIT'])]
    calls = [dict(id=i, steps=h) for i, h in enumerate(behaviours)]
    K.code_to_spec(rep, env, conf, calls, 'every behaviour replayed: get_last / get_next / get_new read, then WriteToPaths.create(get_new(target))',
                   module='VersionTrace', script='run_version_dyn.py', tag='ver', extra={'SPIL_CONF_JSON': conf},
                   envs=store_envs(16, env), per=8, chunk=2000, split_on='"vinit"')
    rep.exhaustive = True
    rep.notes['behaviours'] = len(behaviours)
    for t in ('publish:created', 'publish:nothing-new', 'publish:refused'):
        rep.guard(t in rep.cover or not calls, '%s never exercised' % t)
    rep.assumptions = ['version tokens: "v" + 3 digits as configured; numbers 0..20 and 996..1001 modelled',
                       'targets: task, two versions, a state (no path of its own), a file, and "*" / ">" versions']
    return rep.done()


@reg
def check_C17(tier):
    rep = Report.get('C17', tier)
    env = Env()
    conf = extract_conf(env)
    # (a) the design: TLC on the write protocol, crash enabled between all effects and at every byte boundary
    from common import tlc
    for fw in ('TRUE', 'FALSE'):
        r = tlc('SidecarWrite', 'SidecarWrite_tmp_replace_%s.cfg' % fw, workers=1, timeout=300)
        rep.add_tlc(r, 'SidecarWrite, Protocol = tmp_replace, FirstWrite = %s: Atomic, OthersUntouched, NextWriteSucceeds, DoneMeansNew, NoLeftoverAfterDone' % fw)
        if r.violation:
            rep.fail('spec-invariant', 'TLC: ' + K._tlc_error(r.out), record=dict(tlc_tail=r.out[-2000:]))
        rn = tlc('SidecarWrite', 'SidecarWrite_inplace_%s.cfg' % fw, workers=1, timeout=300)
        rep.add_tlc(rn, 'negative model (Protocol = inplace): TLC must find the crash counter-example')
        rep.guard(rn.violation, 'the negative model (in-place truncation) was not refuted by TLC')
    # (b) + (c): the implementation
    raw = json.load(open(conf))
    uni = json.load(open(_universes(env, conf)))['universes']
    leaves = [e for e in uni['asset:leafonly'] if len(e) == 8]
    f1 = '/'.join(leaves[0])
    f_other = '/'.join([e for e in leaves if e[:6] == leaves[0][:6] and e[7] != leaves[0][7] and e[6] == leaves[0][6]][0])
    d1 = '/'.join(leaves[0][:6])
    search = '/'.join(leaves[0][:7]) + '/*'
    base = dict(other_data=[['o', 'keep']], search=search, new=[['k1', 'x']], new2=[['k2', 'y']])
    calls = []
    scen = [dict(sid=f1, other=d1, first=True, old=[]), dict(sid=f1, other=d1, first=False, old=[['k1', 'old'], ['k0', 'z']]),
            dict(sid=d1, other=f1, first=False, old=[['k0', 'z']])]
    for sc in scen:
        for op in ('effects', 'crash', 'corrupt'):
            c = dict(base, op=op, **sc)
            c['expect_found'] = [f1] if sc['sid'] == f1 or sc['other'] == f1 else []
            calls.append(c)
    # one set() carrying several attributes is still ONE logical write
    multi = dict(base, new=[['k1', 'x'], ['k0', 'changed'], ['k9', 'added']])
    for op in ('effects', 'crash'):
        calls.append(dict(multi, op=op, **scen[1], expect_found=[f1]))
    if tier == 'thorough':
        for sc in scen:
            calls.append(dict(base, op='crash', new=[['k1', 'x' * 40], ['k3', 'some longer value']], **sc, expect_found=[f1]))
    K.code_to_spec(rep, env, conf, calls, 'strace-recorded effects of set(), every crash state materialised and read back by a new process, corrupted sidecars',
                   module='WriteTrace', script='run_write.py', tag='write', extra={'SPIL_CONF_JSON': conf},
                   envs=store_envs(min(9, len(calls)), env), per=1, chunk=100000)
    rep.exhaustive = True
    for t in ('crash:mid-write:old', 'crash:between-effects:new', 'corrupt:truncate', 'corrupt:directory', 'corrupt:unreadable', 'effect:rename:tmp'):
        rep.guard(t in rep.cover or not calls, '%s never exercised' % t)
    rep.assumptions = ['crash = process death: the state on disk is exactly the effects performed so far (no torn or reordered writes; durability / fsync not claimed)',
                       'effects are taken from strace -f of a real interpreter running WriteToPaths().set(); unreadable = PermissionError injected at pathlib level (the sandbox runs as root)']
    return rep.done()


@reg
def check_C13(tier):
    rep = Report.get('C13', tier)
    env = Env()
    conf = extract_conf(env)
    from common import tlc
    # (a) the design: a cache keyed on the full normalised call is transparent over all histories; the keyword-name key is not
    r = tlc('Cache', 'Cache_full.cfg', workers=4, timeout=300)
    rep.add_tlc(r, 'Cache.tla, KeyMode = full: Transparent, KeyOwner, Bounded over all histories of 5 calls, capacity 2')
    if r.violation:
        rep.fail('spec-invariant', 'TLC: ' + K._tlc_error(r.out), record=dict(tlc_tail=r.out[-2000:]))
    rn = tlc('Cache', 'Cache_kwnames.cfg', workers=4, timeout=300)
    rep.add_tlc(rn, 'negative model (KeyMode = kwnames): TLC must refute KeyOwner')
    rep.guard(rn.violation or 'KeyOwner' in rn.out, 'the negative cache model (keyword names as key) was not refuted')
    # (b) the implementation: one pristine interpreter per hash seed, a forked child per history
    raw = json.load(open(conf))
    uni = _universes(env, conf)
    seeds = list(range(8))
    n_pairs, n_seqs, max_len = (60, 12, 30) if tier == 'quick' else (1200, 120, 50)
    envs = store_envs(len(seeds), env)
    alias = raw['alias'][0]['name'] if raw['alias'] else '*'
    import concurrent.futures as cf

    def one(k):
        e = envs[k]
        job = os.path.join(e.work, 'job.json')
        json.dump(dict(univ='asset:complete', seed=SEED * 100 + k, n_pairs=n_pairs, n_seqs=n_seqs, max_len=max_len, alias='maya',
                       overlay_key='state', overlay_val='w', missing_ext='psd', other_level3='prop', other_level2='s'), open(job, 'w'))
        extra = {'SPIL_UNIVERSES': uni, 'SPIL_CONF_JSON': conf}
        e.run('run_cache.py', ['--setup', job], hashseed=seeds[k], extra=extra)
        e.run('run_cache.py', [job, os.path.join(e.work, 'cache.trace')], hashseed=seeds[k], extra=extra, timeout=7200)
        return os.path.join(e.work, 'cache.trace')
    with cf.ThreadPoolExecutor(8) as ex:
        traces = list(ex.map(one, range(len(seeds))))
    trace = os.path.join(env.work, 'cache.trace.ndjson')
    with open(trace, 'w') as out:
        for t in traces:
            with open(t) as f:
                for line in f:
                    out.write(line)
    v = validate(trace, conf, module='CacheTrace', chunk=30000, split_on='"creset"')
    rep.add_validation(v, 'cache decisions and answers of every history, 8 hash seeds')
    recs = trace_lines(trace, [i for i, _ in v['fails']])
    for i, clauses in v['fails']:
        rec = recs[i]
        c = rec['call']
        what = (c.get('spelled') or ('%s %s %s' % (c.get('f'), c.get('args'), c.get('kwargs'))))[:200]
        rep.fail(c.get('op', '?'), '%s fails %s' % (what, ','.join(clauses)), record=K._slim(rec), clauses=clauses)
    with open(trace) as f:
        for n, line in enumerate(f):
            if '"cret"' in line[:40] and len(rep.samples) < 4:
                rep.sample(json.loads(line))
    for t in ('cache:hit', 'cache:miss', 'cache:evict', 'cache:store'):
        rep.guard(t in rep.cover, '%s never exercised' % t)
    rep.guard(len([t for t in rep.cover if t.startswith('ret:')]) >= 12, 'fewer than 12 entry points exercised')
    rep.assumptions = ['ground truth = the answer of a pristine interpreter state (forked right after `import spil`) that makes only that call, per hash seed; 8 seeds (PYTHONHASHSEED 0..7)',
                       'digests preserve list order: an order that depends on the history or the hash seed is a different answer',
                       'cross-seed comparison: the same call must give the same digest under all 8 seeds (checked by the driver on the fresh digests)']
    # cross-seed: identical fresh digests for the same normalised call and epoch
    seen = {}
    with open(trace) as f:
        for line in f:
            if '"cret"' not in line[:40]:
                continue
            rec = json.loads(line)
            k = (rec['call']['norm'], rec['call']['epoch'])
            d = rec['obs']['fresh_digest']
            if rec['call']['fn'] == 'simple_typing':
                continue      # internal helper returning an unordered collection (its only caller sorts); not one of the property's calls
            if k in seen and seen[k][0] != d:
                rep.fail('hashseed', '%s answers differently in fresh processes with different hash seeds: %s vs %s'
                         % (rec['call']['spelled'][:160], seen[k][1][:120], rec['obs']['fresh_answer'][:120]), record=K._slim(rec), clauses=['same_under_every_hash_seed'])
                seen[k] = (d, rec['obs']['fresh_answer'])
            seen.setdefault(k, (d, rec['obs']['fresh_answer']))
    return rep.done()


@reg
def check_C14(tier):
    rep = Report.get('C14', tier)
    env = Env()
    conf = extract_conf(env)
    # value part: equality, hash, order, string comparison for pairs (incl. same-string Sids of different types)
    core_family(rep, env, conf, 'eqlaws', tier, 'C14 value part: pairs of Sids (natural and forced types, junk) - ==, hash, <, sorted, == str')
    # history part: operation sequences on a population of handles
    r = mc('SidHeap', 'SidHeap_%s.cfg' % tier, conf, dump=True)
    rep.add_tlc(r, 'SidHeap: all operation sequences up to the depth of SidHeap_%s.cfg (Frozen, EqualIffSameUri)' % tier)
    if r.violation:
        rep.fail('spec-invariant', 'TLC: ' + K._tlc_error(r.out), record=dict(tlc_tail=r.out[-2000:]))
        return rep.done()
    K.tlc_ok(r, 'SidHeap')
    hists = calls_from_dump(r.dumpfile, var='hist')
    depth = max(len(h) for h in hists)
    behaviours = [h for h in hists if len(h) == depth]
    rnd = random.Random(SEED)
    if tier == 'quick' and len(behaviours) > 1500:
        behaviours = rnd.sample(behaviours, 1500)
    rs, sims = _sim_behaviours('SidHeap', 'SidHeap_gen.cfg', conf, 100 if tier == 'quick' else 1000, 13)
    rep.add_tlc(rs, 'random operation sequences of 12 steps (-simulate)')
    behaviours += [h for h in sims if h]
    calls = [dict(id=i, steps=h) for i, h in enumerate(behaviours)]
    K.code_to_spec(rep, env, conf, calls, 'every sequence replayed on real Sids; every handle snapshotted and every returned container damaged after every operation',
                   module='ImmutTrace', script='run_immut.py', tag='immut', per=100, chunk=8000, split_on='"ireset"')
    rep.exhaustive = True
    rep.notes['behaviours'] = len(behaviours)
    rep.guard(len([t for t in rep.cover if t.startswith('op:')]) >= 15 or not calls, 'fewer than 15 operations exercised')
    rep.assumptions = ['public Sid API only (fields, get_as, parent, get_with, copy, path, /, ==, hash, sort ...); private attributes are read, never written, by the harness']
    return rep.done()


@reg
def check_C20(tier):
    """the drivers of C01-C08 and C11 re-run under configuration packages generated from the shipped one"""
    from common import PY, HARNESS, REPO, scratch
    import subprocess
    rep = Report('C20', tier)
    variants = ['all_changes'] if tier == 'quick' else ['rename_keys', 'rename_types', 'separators', 'insert_level', 'leaf_extrapolation', 'third_path_config', 'renamed_everything', 'all_changes']
    subs = [('C01', K.check_C01, 'quick'), ('C02', check_C02, 'quick'), ('C04', check_C04, 'quick'), ('C05', check_C05, 'quick'),
            ('C06', check_C06, 'quick'), ('C07', check_C07, 'c20'), ('C08', check_C08, 'c20'), ('C11', check_C11, 'c20')]
    if tier == 'thorough':
        subs = [(a, b, 'quick') for a, b, _ in subs if a != 'C11'] + [('C03', check_C03, 'quick'), ('C11', check_C11, 'quick')]
    Report.redirect = rep
    try:
        for v in variants:
            d = os.path.join(scratch('c20conf-'), v)
            p = subprocess.run([PY, os.path.join(HARNESS, 'gen_conf.py'), os.path.join(REPO, 'spil_hamlet_conf'), v, d], capture_output=True, text=True)
            if p.returncode != 0:
                raise Machinery('gen_conf failed: ' + p.stderr[-1000:])
            os.environ['SPIL_CONFSRC'] = d
            Report.prefix = v
            for pid, fn, subtier in subs:
                n0 = len(rep.items)
                fn(subtier)
                rep.runs.append(dict(what='%s driver under configuration %s' % (pid, v), new_failures=len(rep.items) - n0))
    finally:
        Report.redirect = None
        Report.prefix = ''
        os.environ.pop('SPIL_CONFSRC', None)
    rep.exhaustive = False
    rep.notes['configurations'] = variants
    rep.assumptions = ['configuration family: textual rewrites of the shipped configuration package (gen_conf.py): renamed keys incl. the leaf key, renamed basetypes / type codes / project, '
                       'changed file-name separators and fixed folders, an inserted hierarchy level; each package is imported by the real spil and extracted anew for the specification',
                       'the vacuity guards of the sub-drivers are tuned for the shipped configuration and are not applied here']
    return rep.finish()


# ----------------------------------------------------------------------------- code -> spec drivers on realistic / random inputs
def example_sids(env):
    p = os.path.join(env.confdir, 'data', 'testing', 'hamlet.sids.txt')
    if not os.path.exists(p):
        return []
    return [l.strip() for l in open(p) if l.strip()]


def driver_calls(env, tier, ops=('sid',)):
    """calls built from the repository's own example Sids and from seeded random strings (junk segments, control
    characters, search symbols, type prefixes): inputs only - the oracle stays the specification"""
    rnd = random.Random(SEED + 11)
    sids = example_sids(env)
    n_ex = 600 if tier == 'quick' else len(sids)
    picked = rnd.sample(sids, min(n_ex, len(sids)))
    calls = []
    for s in picked:
        segs = [wire.enc(x) for x in s.split('/')]
        if 'sid' in ops:
            calls.append(dict(op='sid', uri=[], segs=segs, query=[]))
        if 'forms' in ops:
            calls.append(dict(op='forms', uri=[], segs=segs, query=[], qsafe=all(__import__('re').fullmatch(r'[A-Za-z0-9_.*>,-]+', x) for x in s.split('/')), seed=len(s)))
        if 'nav' in ops:
            calls.append(dict(op='nav', uri=[], segs=segs, query=[], via=rnd.choice(['string', 'uri', 'fields_shuffled', 'getwith', 'path']), seed=len(s), foreign=['foo', 'node']))
        if 'topath' in ops:
            calls.append(dict(op='topath', segs=segs, uri=[]))
    if 'sid' in ops:
        alphabet = ['hamlet', 'a', 's', 'char', 'ophelia', 'model', 'anim', 'v001', 'w', 'p', 'ma', 'mov', 'abc', 'sq010', 'sh0010', '*', '>', '**', '',
                    'junk', 'x y', 'ham%0Alet', '%09', 'v1', 'V001', 'a,s', 'o*', 'é', '%00', '.', '..']
        for _ in range(2000 if tier == 'quick' else 40000):
            n = rnd.choice([0, 1, 1, 2, 3, 4, 5, 6, 7, 8, 8, 9, 10, 12])
            segs = [rnd.choice(alphabet) for _ in range(n)]
            uri = rnd.choice([[], [], [], ['asset__file'], [''], ['nosuch'], ['shot__task', 'x']])
            calls.append(dict(op='sid', uri=uri, segs=[wire.enc(wire.dec(x)) for x in segs], query=[]))
    return calls


def run_driver(rep, env, what, calls, tag):
    """extract the configuration again with the tokens of the calls, then execute and validate"""
    toks = set()
    for c in calls:
        toks.update(c.get('segs', []))
    conf2 = extract_conf(env, extra_tokens=sorted(toks), name='conf_%s.json' % tag)
    K.code_to_spec(rep, env, conf2, calls, what, tag=tag, extra={'SPIL_CONF_JSON': conf2})
