"""Further property drivers (registered into checks.REGISTRY)."""
from __future__ import annotations
import json, os, random
from common import Env, Machinery, SEED
from pipeline import extract_conf, mc, calls_from_dump, execute, validate, trace_lines, tokens_of
from report import Report
import checks as K

REGISTRY = {}


def reg(fn):
    REGISTRY[fn.__name__[6:]] = fn
    return fn


def _no_seed(calls):
    return [c for c in calls if c.get('op') != 'seed']


def core_family(rep, env, conf, family, tier, what):
    calls = K.spec_to_code(rep, env, conf, 'MC_Core', 'MC_Core_%s_%s.cfg' % (family, tier), what, transform=_no_seed)
    K.code_to_spec(rep, env, conf, calls, what + ' executed on the implementation', tag=family)
    return calls


@reg
def check_C02(tier):
    rep = Report('C02', tier)
    env = Env()
    conf = extract_conf(env)
    calls = core_family(rep, env, conf, 'forms', tier, 'C02 family: every naturally typed string (product of value sets) x 10+ constructors')
    rep.exhaustive = True
    rep.guard(len([t for t in rep.cover if t.startswith('forms:')]) >= 15 or not calls, 'fewer than 15 types exercised')
    rep.assumptions = ['query round trip only for values without whitespace / URL metacharacters (qsafe tokens)',
                       'theorems checked by TLC on the spec: Canonical, DictFirstIsNatural, DictOrderIrrelevant, UriRoundTrip, QueryRoundTrip']
    return rep.finish()


@reg
def check_C03(tier):
    rep = Report('C03', tier)
    env = Env()
    conf = extract_conf(env)
    calls = core_family(rep, env, conf, 'nav', tier, 'C03 family: every typed string x 6 constructors + untyped inputs')
    rep.exhaustive = True
    rep.guard(any(t.endswith(':untyped') for t in rep.cover) or not calls, 'no untyped navigation exercised')
    rep.guard(len([t for t in rep.cover if t.startswith('nav:')]) >= 8 or not calls, 'not every constructor exercised')
    rep.assumptions = ['theorems checked by TLC on the spec: PrefixClosed, ParentLaws']
    return rep.finish()


@reg
def check_C04(tier):
    rep = Report('C04', tier)
    env = Env()
    conf = extract_conf(env)
    c1 = core_family(rep, env, conf, 'query', tier, 'C04 family: typed Sids x query overlays (trailing ? and get_with(query=))')
    c2 = core_family(rep, env, conf, 'getwith', tier, 'C04 family: typed Sids x keyword overlays incl. None')
    rep.exhaustive = True
    need = ['NoType', 'OneType', 'ManyKeepsOld', 'ManySearchFirst']
    for b in need:
        rep.guard(any(t.endswith(':' + b) for t in rep.cover) or not c1, 'decision-table row %s never exercised' % b)
    rep.assumptions = ['theorems checked by TLC on the spec: AllOrNothing, OptionalNeverAdds, GetWithExact']
    return rep.finish()


def _universes(env, conf):
    """the generated universes, printed by TLC from spec/Universe.tla, for the runner"""
    from common import tlc, parse_tla
    r = tlc('PrintUniverses', 'PrintUniverses.cfg', env={'SPIL_CONF_JSON': conf}, workers=1, timeout=300)
    out = {}
    for v in r.printed():
        if isinstance(v, list) and v and v[0] == 'UNIVERSE':
            out[v[1]] = v[2]
    if not out:
        raise Machinery('no universes printed:\n' + r.out[-2000:])
    p = os.path.join(env.dir, 'universes.json')
    json.dump(out, open(p, 'w'))
    return p


def search_family(rep, env, conf, family, tier, what, keep=None, gt=True):
    cfg = 'MC_Search_%s_%s%s.cfg' % (family, tier, '' if gt else '_nogt')
    calls = K.spec_to_code(rep, env, conf, 'MC_Search', cfg, what,
                           transform=(lambda cs: [c for c in cs if (keep is None or keep(c))]))
    uni = _universes(env, conf) if family != 'unfold' else ''
    K.code_to_spec(rep, env, conf, calls, what + ' executed on the implementation', tag=family,
                   extra={'SPIL_UNIVERSES': uni})
    return calls


@reg
def check_C07(tier):
    rep = Report('C07', tier)
    env = Env()
    conf = extract_conf(env)
    calls = search_family(rep, env, conf, 'unfold', tier, 'C07 family: first string of every type x <= MaxEdits syntactic edits')
    rep.exhaustive = True
    for t in ('unfold:error', 'unfold:nothing', 'unfold:one', 'unfold:many'):
        rep.guard(t in rep.cover or not calls, '%s never exercised' % t)
    rep.assumptions = ['theorems checked by TLC on the spec: UnfoldIsDenote (operational pipeline = declarative denotation), '
                       'ErrorOnlyWhenDenoted, AllTypedAndMatching, NoDoubleStarLeft, LeafOnlyAfterExpand']
    return rep.finish()
