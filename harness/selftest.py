"""./check selftest  - demonstrates that the specification is BOUND to the implementation:

for every trace specification a small trace is recorded from the real spil, validated (must be accepted),
then ONE recorded field is corrupted and the trace is validated again: it must be rejected, and the
rejection must name the expected clause.  Not a property check; exit 0 iff every binding holds.
"""
from __future__ import annotations
import copy, json, os, sys
from common import Env, Machinery
from pipeline import extract_conf, execute, validate, mc, calls_from_dump
import checks as K
import checks_more as M


def corrupt_and_validate(name, trace, conf, module, pick, mutate, expect, split_on=None):
    lines = [json.loads(l) for l in open(trace)]
    idx = next(i for i, r in enumerate(lines) if pick(r))
    bad = copy.deepcopy(lines)
    mutate(bad[idx])
    t2 = trace + '.corrupt'
    with open(t2, 'w') as f:
        for r in bad:
            f.write(json.dumps(r) + '\n')
    v0 = validate(trace, conf, module=module, split_on=split_on, chunk=10 ** 9)
    v1 = validate(t2, conf, module=module, split_on=split_on, chunk=10 ** 9)
    hit = [c for i, cl in v1['fails'] for c in cl if i == idx]
    ok = (not v0['fails']) and any(expect in c for c in hit)
    print('%-28s recorded trace accepted: %-5s corrupted line %d rejected with %s (expected clause %r): %s'
          % (name, not v0['fails'], idx, hit[:4], expect, 'OK' if ok else 'BINDING BROKEN'))
    return ok


def run(argv):
    env = Env()
    conf = extract_conf(env, extra_tokens=M.VTOKENS)
    env.run('probe_routing.py', [conf])
    uni = M._universes(env, conf)
    raw = json.load(open(conf))
    universes = json.load(open(uni))['universes']
    leaf = sorted(e for e in universes['asset:leafonly'] if len(e) == 8)[0]
    ok = True
    # ---- functional calls (PureTrace)
    seg = leaf
    calls = [dict(op='sid', uri=[], segs=seg, query=[]),
             dict(op='forms', uri=[], segs=seg, query=[], qsafe=True, seed=1),
             dict(op='query', uri=[], segs=seg[:4], mode='trailing', pairs=[['task', 'art']]),
             dict(op='unfold', search=dict(segs=[[x] for x in seg[:3]] + [['**']], query=[])),
             dict(op='findlist', univ='asset:complete', search=dict(segs=[[x] for x in seg[:3]] + [['*']], query=[])),
             dict(op='topath', segs=seg, uri=[]),
             dict(op='frompath', cfg='local', path=[['ROOT'], ['HAMLET'], ['PROD'], ['ASSETS'], [seg[2]], [seg[3]]])]
    trace = execute(env, calls, tag='self', extra={'SPIL_UNIVERSES': uni, 'SPIL_CONF_JSON': conf})

    def setk(path, val):
        def f(r):
            o = r
            for k in path[:-1]:
                o = o[k]
            o[path[-1]] = val
        return f
    P = lambda op: (lambda r: r['call']['op'] == op)
    tests = [('PureTrace/sid', P('sid'), setk(['obs', 'type'], 'asset__movie_file'), 'type'),
             ('PureTrace/forms', P('forms'), lambda r: r['obs']['forms'][1].__setitem__('eq', False), 'form_'),
             ('PureTrace/query', P('query'), setk(['obs', 'string'], 'hamlet/a/char/ophelia/rig'), 'string'),
             ('PureTrace/unfold', P('unfold'), lambda r: r['obs']['res'].pop(), 'set_equal'),
             ('PureTrace/findlist', P('findlist'), lambda r: r['obs']['res'].append(r['obs']['res'][0]), 'nodup'),
             ('PureTrace/findlist-options', P('findlist'), lambda r: r['obs']['x_res'].pop(), 'opt_extrapolate'),
             ('PureTrace/topath', P('topath'), lambda r: r['obs']['cfgs'][0]['path'][-1].__setitem__(0, 'zz'), 'cfg_'),
             ('PureTrace/frompath', P('frompath'), setk(['obs', 'type'], ''), 'type')]
    for name, pick, mut, exp in tests:
        ok &= corrupt_and_validate(name, trace, conf, 'PureTrace', pick, mut, exp)
    # ---- the Writer (StoreTrace)
    r = mc('StoreDyn', 'StoreDyn_quick.cfg', conf, dump=True)
    hists = [h for h in calls_from_dump(r.dumpfile, var='hist') if len(h) == 2 and h[0]['op'] == 'create' and h[0]['data'] and h[1]['op'] == 'update'][:3]
    alphabet = sorted({tuple(st['segs']) for h in hists for st in h})
    beh = [dict(id=i, steps=h, alphabet=[list(a) for a in alphabet]) for i, h in enumerate(hists)]
    t = execute(env, beh, script='run_store_dyn.py', tag='selfdyn', extra={'SPIL_CONF_JSON': conf}, envs=M.store_envs(1, env), per=10)
    ok &= corrupt_and_validate('StoreTrace/tree', t, conf, 'StoreTrace', lambda r: r['call']['op'] == 'dyn' and r['obs']['listing'],
                               lambda r: r['obs']['listing'].pop(), 'tree', split_on='"dynreset"')
    ok &= corrupt_and_validate('StoreTrace/sidecar', t, conf, 'StoreTrace', lambda r: r['call']['op'] == 'dyn' and r['obs']['sidecars'],
                               lambda r: r['obs']['sidecars'][0][2][0].__setitem__(1, 'tampered'), 'side', split_on='"dynreset"')
    ok &= corrupt_and_validate('StoreTrace/reads', t, conf, 'StoreTrace', lambda r: r['call']['op'] == 'dynreads',
                               lambda r: r['obs']['exists'][0].__setitem__(1, not r['obs']['exists'][0][1]), 'exists', split_on='"dynreset"')
    # ---- the cache (CacheTrace): a hit on a key that was never stored, a changed answer
    ct = os.path.join(env.work, 'selfcache.ndjson')
    lines = [dict(call=dict(op='creset', cap=2, seed=0, calls=[]), obs={}),
             dict(call=dict(op='cev', f='f', what='miss', args=["'a'"], kwargs=[], evicted=[]), obs={}),
             dict(call=dict(op='cev', f='f', what='store', args=["'a'"], kwargs=[], evicted=[]), obs={}),
             dict(call=dict(op='cev', f='f', what='hit', args=["'a'"], kwargs=[], evicted=[]), obs={}),
             dict(call=dict(op='cret', fn='f', id=0, norm="f('a')", epoch=0, spelled=''), obs=dict(digest='d1', raised='', fresh_digest='d1', fresh_raised='', answer='', fresh_answer=''))]
    with open(ct, 'w') as f:
        for r_ in lines:
            f.write(json.dumps(r_) + '\n')
    ok &= corrupt_and_validate('CacheTrace/hit', ct, conf, 'CacheTrace', lambda r: r['call'].get('what') == 'hit',
                               lambda r: r['call'].__setitem__('kwargs', [['flag', 'True']]), 'hit_on_a_key', split_on='"creset"')
    ok &= corrupt_and_validate('CacheTrace/answer', ct, conf, 'CacheTrace', lambda r: r['call']['op'] == 'cret',
                               lambda r: r['obs'].__setitem__('digest', 'other'), 'same_as_fresh', split_on='"creset"')
    # ---- the write protocol (WriteTrace): an effect that truncates the sidecar itself
    wt = os.path.join(env.work, 'selfwrite.ndjson')
    ev = [dict(op='wbegin', first=False, sid='x')] + [dict(op='weffect', kind=k, file=f_, total=4, n=n) for k, f_, n in
          (('open_read', 'dst', 0), ('close', 'dst', 0), ('open_trunc', 'tmp', 0), ('write', 'tmp', 4), ('close', 'tmp', 0), ('rename', 'tmp', 'dst'))]
    wl = []
    for e in ev:
        wl.append(dict(call=e, obs={}))
        if e['op'] == 'weffect':
            wl.append(dict(call=dict(op='wsafe'), obs={}))
    wl.append(dict(call=dict(op='wend', sid='x', first=False), obs=dict(raised='', ret=True, final=[['a', '1']], expect_new=[['a', '1']], n_renames=1)))
    with open(wt, 'w') as f:
        for r_ in wl:
            f.write(json.dumps(r_) + '\n')
    ok &= corrupt_and_validate('WriteTrace/protocol', wt, conf, 'WriteTrace', lambda r: r['call'].get('kind') == 'open_trunc',
                               lambda r: r['call'].__setitem__('file', 'dst'), 'truncates_the_sidecar_in_place')
    # ---- vacuity: every action of the stateful models is taken (TLC -coverage)
    from common import tlc
    for module, cfg, acts in (('SidecarWrite', 'SidecarWrite_tmp_replace_FALSE.cfg', ['ReadOld', 'OpenTrunc', 'WriteByte', 'Close', 'Replace', 'Crash', 'Restart']),
                              ('Cache', 'Cache_full.cfg', ['Call'])):
        r = tlc(module, cfg, env={'SPIL_CONF_JSON': conf}, workers=1, timeout=300, extra=['-coverage', '1'])
        missing = [a for a in acts if not any(('<' + a + ' ') in l and ': 0:' not in l for l in r.out.splitlines())]
        good = not missing
        print('%-28s every action taken at least once: %s %s' % ('coverage/' + module, 'OK' if good else 'NEVER TAKEN', missing))
        ok &= good
    # ---- design-level models beyond the listed properties (not bound to the implementation)
    r = tlc('SidCache', 'SidCache.cfg', workers=4, timeout=600)
    good = ('No error has been found' in r.out)
    print('%-28s safety (NeverInvented, FileNeverInvented) and liveness (WarmupEnds, LockNotForever) hold, %d states: %s'
          % ('design/SidCache', r.distinct, 'OK' if good else 'FAILED'))
    ok &= good
    r = tlc('SidCache', 'SidCache_negative.cfg', workers=4, timeout=600)
    good = r.violation and 'CreatedNotLost' in r.out
    print('%-28s the claim "a created entry cannot be lost" is refuted by TLC (warm-up in flight replaces the file): %s'
          % ('design/SidCache (negative)', 'OK' if good else 'NOT REFUTED'))
    ok &= good
    print('SELFTEST', 'PASSED' if ok else 'FAILED')
    return 0 if ok else 1
