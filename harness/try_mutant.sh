#!/bin/bash
# try_mutant.sh <dir with patch.diff> <check id>...   : apply a seeded change to /repo, run the checks, undo it.
# Evidence of these runs goes to a scratch directory (never to /verif/evidence).
d=$1; shift
cd /repo || exit 2
if [ -n "$(git status --porcelain)" ]; then echo "/repo is not clean"; exit 2; fi
git apply "$d/patch.diff" || { echo "patch does not apply"; exit 2; }
trap 'git -C /repo checkout -- . ; git -C /repo clean -fdq spil spil_hamlet_conf 2>/dev/null' EXIT
cd /verif
for c in "$@"; do
  out=$(VERIF_EVIDENCE_DIR=/tmp/mut/ev ./check $c --tier quick 2>&1 | tail -4)
  rc=$?
  echo "== $c: $(echo "$out" | grep -c VIOLATION) violation line(s)"
  echo "$out" | cut -c1-300
done
