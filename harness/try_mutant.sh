#!/bin/bash
# try_mutant.sh <dir with patch.diff> <check id>... : apply a seeded change to a PRIVATE scratch worktree of /repo
# (never to /repo itself), run the checks against it (SPIL_REPO), remove the worktree.
# Evidence of these runs goes to a scratch directory (never to /verif/evidence).
d=$1; shift
wt=$(mktemp -d /tmp/mutrepo-XXXXXX); rmdir $wt
git -C /repo worktree add -q --detach $wt HEAD || exit 2
trap 'git -C /repo worktree remove --force '$wt' 2>/dev/null; git -C /repo worktree prune' EXIT
git -C $wt apply "$d/patch.diff" || { echo "patch does not apply"; exit 2; }
cd /verif
for c in "$@"; do
  out=$(SPIL_REPO=$wt VERIF_EVIDENCE_DIR=/tmp/mut/ev ./check $c --tier ${TIER:-quick} 2>&1 | grep -v '^KNOWN-FINDING' | tail -4)
  echo "== $c: $(echo "$out" | grep -c VIOLATION) violation line(s)"
  echo "$out" | cut -c1-300
done
