"""The three pipeline stages shared by the checks:
   conf extraction, spec -> code (TLC dump -> calls -> real spil), code -> spec (trace validation)."""
from __future__ import annotations
import concurrent.futures as cf
import json, os, re, shutil, subprocess, sys, time
from common import (Env, Machinery, PY, HARNESS, SPEC, SEED, tlc, tlc_ok, dump_states, scratch, parse_tla)


def extract_conf(env: Env, extra_tokens=None, name='conf.json'):
    out = os.path.join(env.dir, name)
    args = [PY, os.path.join(HARNESS, 'extract_conf.py'), env.confdir, out]
    if extra_tokens:
        tf = os.path.join(env.dir, name + '.tokens.json')
        json.dump(sorted(set(extra_tokens)), open(tf, 'w'))
        args.append(tf)
    e = {k: v for k, v in os.environ.items() if k != 'PYTHONPATH'}
    e['PYTHONDONTWRITEBYTECODE'] = '1'
    p = subprocess.run(args, capture_output=True, text=True, env=e, cwd=env.dir)
    if p.returncode != 0:
        raise Machinery('extract_conf failed:\n' + p.stdout[-2000:] + p.stderr[-3000:])
    return out


def mc(module, cfg, conf, dump=None, extra_env=None, workers=16, timeout=3000, simulate=None, extra=()):
    """Run TLC on an MC_* model.  Returns TlcResult (r.dumpfile set when dump requested)."""
    env = {'SPIL_CONF_JSON': conf}
    if extra_env:
        env.update(extra_env)
    ex = list(extra)
    dumpfile = None
    if dump:
        dumpfile = os.path.join(scratch('dump-'), 'states')
        ex += ['-dump', dumpfile]
    if simulate:
        ex += ['-simulate', simulate, '-seed', str(SEED)]
    r = tlc(module, cfg, env=env, workers=workers, timeout=timeout, extra=ex)
    r.dumpfile = dumpfile + '.dump' if dumpfile and os.path.exists(dumpfile + '.dump') else dumpfile
    return r


def calls_from_dump(dumpfile, var='call', limit=None, key=None):
    """distinct values of state variable `var` from a TLC dump, in dump order"""
    seen, out = set(), []
    for st in dump_states(dumpfile):
        c = st[var]
        k = json.dumps(c, sort_keys=True)
        if k in seen:
            continue
        seen.add(k)
        out.append(c)
        if limit and len(out) >= limit:
            break
    return out


def execute(env: Env, calls, hashseed=0, shards=16, script='run_calls.py', extra=None, tag='t', envs=None, per=500, shard_key=None):
    """Run the calls against the real spil in `shards` parallel interpreters; returns trace path."""
    n = len(calls)
    if n == 0:
        raise Machinery('no calls to execute')
    if envs:
        shards = len(envs)
    shards = max(1, min(shards, (n + per - 1) // per))
    files = []
    for s in range(shards):
        cf_ = os.path.join(env.work, '%s.calls.%d' % (tag, s))
        with open(cf_, 'w') as f:
            if shard_key is None:
                mine = calls[s::shards]
            else:   # calls with the same key are executed by the same interpreter (history-dependent defects need company)
                import zlib
                mine = [c for c in calls if zlib.crc32(shard_key(c).encode()) % shards == s]
            for c in mine:
                f.write(json.dumps(c) + '\n')
        files.append(cf_)

    def one(s):
        return (envs[s] if envs else env).run(script, [files[s], files[s] + '.trace'], hashseed=hashseed, extra=extra)
    with cf.ThreadPoolExecutor(shards) as ex:
        list(ex.map(one, range(shards)))
    trace = os.path.join(env.work, tag + '.trace.ndjson')
    with open(trace, 'w') as out:
        for s in range(shards):
            with open(files[s] + '.trace') as f:
                shutil.copyfileobj(f, out)
            os.remove(files[s] + '.trace')
            os.remove(files[s])
    return trace


def validate(trace, conf, module='PureTrace', cfg=None, chunk=20000, extra_env=None, timeout=1800,
             parallel=8, split_on=None):
    """code -> spec: TLC validates the trace (chunked, one worker per chunk).  Returns
    dict(lines, fails=[(global line index, [clauses])], cover={tag: n}, wall)."""
    cfg = cfg or module + '.cfg'
    d = scratch('val-')
    chunks = []
    with open(trace) as f:
        buf, idx = [], 0
        for line in f:
            if split_on and len(buf) >= chunk and split_on in line[:80]:
                p = os.path.join(d, 'c%d.ndjson' % len(chunks))
                open(p, 'w').writelines(buf)
                chunks.append((p, idx, len(buf)))
                idx += len(buf)
                buf = []
            buf.append(line)
            if not split_on and len(buf) >= chunk:
                p = os.path.join(d, 'c%d.ndjson' % len(chunks))
                open(p, 'w').writelines(buf)
                chunks.append((p, idx, len(buf)))
                idx += len(buf)
                buf = []
        if buf:
            p = os.path.join(d, 'c%d.ndjson' % len(chunks))
            open(p, 'w').writelines(buf)
            chunks.append((p, idx, len(buf)))
            idx += len(buf)
    total = idx
    t0 = time.time()

    def one(ch):
        p, off, n = ch
        env = {'SPIL_CONF_JSON': conf, 'TRACE_FILE': p}
        if extra_env:
            env.update(extra_env)
        r = tlc(module, cfg, env=env, workers=1, timeout=timeout)
        fails, cover, consumed = [], {}, None
        for v in r.printed():
            if isinstance(v, list) and v and v[0] == 'FAIL':
                fails.append((off + v[1][0] - 1, v[1][1]))
            elif isinstance(v, list) and v and v[0] == 'COVER':
                body = v[1]
                pairs = [p[1] for p in body['__fun__']] if isinstance(body, dict) and '__fun__' in body else (body if isinstance(body, list) else [])
                for t, c in pairs:
                    cover[t] = cover.get(t, 0) + c
            elif isinstance(v, list) and v and v[0] == 'CONSUMED':
                consumed = v[1]
        if consumed != n:
            raise Machinery('trace validation did not consume chunk %s (%s of %s):\n%s' % (p, consumed, n, r.out[-3000:]))
        return fails, cover
    fails, cover = [], {}
    with cf.ThreadPoolExecutor(parallel) as ex:
        for fl, cv in ex.map(one, chunks):
            fails.extend(fl)
            for t, c in cv.items():
                cover[t] = cover.get(t, 0) + c
    shutil.rmtree(d, ignore_errors=True)
    return dict(lines=total, fails=sorted(fails), cover=cover, wall=time.time() - t0)


def trace_line(trace, i):
    with open(trace) as f:
        for n, line in enumerate(f):
            if n == i:
                return json.loads(line)
    return None


def trace_lines(trace, idxs):
    want = set(idxs)
    out = {}
    with open(trace) as f:
        for n, line in enumerate(f):
            if n in want:
                out[n] = json.loads(line)
    return out


def tokens_of(trace_or_calls):
    """every string leaf of a trace / call list (to extend the vocabulary before validation)"""
    toks = set()

    def walk(v):
        if isinstance(v, str):
            toks.add(v)
        elif isinstance(v, list):
            for x in v:
                walk(x)
        elif isinstance(v, dict):
            for x in v.values():
                walk(x)
    if isinstance(trace_or_calls, str):
        with open(trace_or_calls) as f:
            for line in f:
                walk(json.loads(line))
    else:
        walk(trace_or_calls)
    return toks
