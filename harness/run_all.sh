#!/bin/bash
# run every registered check of a tier in sequence; prints one summary line per check
tier=${1:-quick}
cd /verif
for p in C01 C02 C03 C04 C05 C06 C07 C08 C09 C10 C11 C12 C13 C14 C15 C16 C17 C18 C19 C20; do
  s=$(date +%s)
  out=$(./check $p --tier $tier 2>&1 | grep -v '^KNOWN-FINDING' | tail -2 | tr '\n' ' ')
  echo "$p $(( $(date +%s) - s ))s  ${out:0:220}"
done
