"""C13 harness: histories of read-only calls against the real spil, with the cache hook on.

One interpreter per hash seed imports spil once (pristine state) and forks a child per history, so every
history starts from the state of a fresh process.  The ground truth of every (call, data epoch) is the
answer of a pristine child that makes only that call.  Every cache decision (hook events) and every
top-level answer is logged for validation by spec/CacheTrace.tla.

usage: run_cache.py <job.json> <trace.ndjson>
"""
import sys, json, os, inspect, random, hashlib, traceback, shutil

sys.setrecursionlimit(10000)
import spil  # noqa
from spil import Sid, SpilException, FindInList, FindInPaths, FindInAll, WriteToPaths
from spil.util import caching
from spil.sid.read.tools import unfold_search
from spil.sid.core.utils import simple_typing
from spil.sid.core.sid_resolver import sid_to_dict, sid_to_dicts
from spil.sid.pathops.pathconfig import get_path_config
from spil.sid.read.finders.find_all import get_finder
from pathlib import PurePath


def canon(x, depth=0):
    """order-preserving canonical rendering of an answer"""
    if isinstance(x, Sid):
        return 'Sid(%s|%s)' % (x.uri, ','.join('%s=%s' % kv for kv in x.fields.items()))
    if isinstance(x, PurePath):
        p = x.as_posix()
        for c, r in ROOTS.items():      # every seed has its own scratch copy of the configuration: roots are named, not compared
            if p == r or p.startswith(r + '/'):
                p = 'ROOT:' + c + p[len(r):]
        return 'Path(%s)' % p
    if isinstance(x, (list, tuple)):
        return '[' + ', '.join(canon(y, depth + 1) for y in x) + ']'
    if isinstance(x, dict):
        return '{' + ', '.join('%s: %s' % (canon(k), canon(v, depth + 1)) for k, v in x.items()) + '}'
    if isinstance(x, (str, int, bool, float)) or x is None:
        return repr(x)
    if hasattr(x, '__next__'):
        return canon(list(x), depth)
    name = type(x).__name__
    cfg = getattr(x, 'config_name', getattr(x, 'name', getattr(x, 'config', '')))
    return '<%s %s>' % (name, cfg)


def arg_repr(a):
    return canon(a)[:300]


# ----------------------------------------------------------------------------- the call alphabet
def build_alphabet(job):
    """structured calls: fn + positional / keyword arguments (literals or references to prepared objects)"""
    s1, s2, q1, q2, p = job['s1'], job['s2'], job['search1'], job['search2'], job['paths']
    A = []

    def add(fn, *args, **kw):
        A.append(dict(fn=fn, args=list(args), kwargs=kw))
    for s in (s1, s2, q1, 'junk/x'):
        add('Sid', s)
    add('Sid', sid=s1)
    add('Sid', fields=job['fields1'])
    add('Sid', query=job['query1'])
    add('Sid', s1 + '?' + job['overlay'])
    for cfg in ('local', 'server'):
        add('Sid', path=p[cfg], config=cfg)
        add('Sid', path=p[cfg], config=('server' if cfg == 'local' else 'local'))
    add('Sid', path=p['local'])
    for s in (s1, s2):
        add('path', s)
        add('path', s, 'local')
        add('path', s, 'server')
        add('path', s, config='server')
        add('path', s, config='local')
    # comma searches and each of their alternatives on its own (a cached list must not be shared between them)
    for q in (job['search_or'], job['search_or_alt'], job['search_or2']):
        add('unfold', q)
        add('find', 'all', q)
        add('find', 'list', q)
    for q in (q1, q2, job['search3']):
        add('unfold', q)
        add('unfold', q, False, True)
        add('unfold', q, do_extrapolate=True)
        add('unfold', q, do_extrapolate=False)
        add('unfold', q, do_uniquify=True)
        add('unfold', q, True)
        add('unfold', q, do_uniquify=False, do_extrapolate=True)
        add('unfold', search_sid=q)
    add('simple_typing', q1)
    add('simple_typing', q2)
    for s in (s1, s2):
        add('sid_to_dict', s)
        add('sid_to_dict', s, job['type_of'][s])
        add('sid_to_dict', s, _type=job['type_of'][s])
        add('sid_to_dict', sid=s, _type=job['type_of'][s])
        add('sid_to_dict', sid=s)
        add('sid_to_dicts', s)
    add('get_path_config')
    add('get_path_config', 'local')
    add('get_path_config', 'server')
    add('get_path_config', name='server')
    add('get_finder', q1)
    add('get_finder', s1, None)
    for fd in ('paths_local', 'paths_server', 'list', 'all'):
        for q in (q1, q2, job['search_gt']):
            add('find', fd, q)
        add('find_one', fd, q2)
        add('find_partial', fd, q1)
    add('exists', s1)
    add('exists', job['missing'])
    add('match', s1, q1)
    add('match', s1, q2)
    add('create', job['missing'])
    return A


FUNCS = {}
ROOTS = {}


def prepare(job):
    # the roots come from the set-up process: the pristine interpreter must not have touched any path configuration
    ROOTS.update(job['roots'])
    FUNCS.update(Sid=Sid, unfold=unfold_search, simple_typing=simple_typing, sid_to_dict=sid_to_dict, sid_to_dicts=sid_to_dicts,
                 get_path_config=get_path_config, get_finder=get_finder)


def finder_of(name, job):
    if name == 'paths_local':
        return FindInPaths('local')
    if name == 'paths_server':
        return FindInPaths('server')
    if name == 'list':
        return FindInList(list(job['L']))
    return FindInAll()


def norm_of(c):
    """the call with its arguments bound to parameter names and defaults filled in"""
    fn = c['fn']
    try:
        target = {'path': Sid.path.__wrapped__ if hasattr(Sid.path, '__wrapped__') else Sid.path}.get(fn) or FUNCS.get(fn)
        if fn == 'Sid':
            from spil.sid.core.sid_factory import sid_factory as target  # noqa
        if target is None:
            raise KeyError
        args = list(c['args'])
        sig = inspect.signature(target)
        if fn == 'path':
            b = sig.bind('SELF:' + args[0], *args[1:], **c['kwargs'])
        else:
            b = sig.bind(*args, **c['kwargs'])
        b.apply_defaults()
        return fn + '(' + ', '.join('%s=%r' % kv for kv in b.arguments.items()) + ')'
    except Exception:
        return fn + '(' + ', '.join(map(repr, c['args'])) + ', ' + ', '.join('%s=%r' % kv for kv in sorted(c['kwargs'].items())) + ')'


def exec_call(c, job):
    fn, args, kw = c['fn'], c['args'], c['kwargs']
    if fn == 'path':
        return Sid(args[0]).path(*args[1:], **kw)
    if fn in ('find', 'find_one', 'find_partial'):
        f = finder_of(args[0], job)
        if fn == 'find':
            return list(f.find(args[1], as_sid=False))
        if fn == 'find_one':
            return f.find_one(args[1], as_sid=False)
        g = f.find(args[1])
        first = next(g, None)      # partially consumed generator, then dropped
        del g
        return first
    if fn == 'exists':
        return Sid(args[0]).exists()
    if fn == 'match':
        return Sid(args[0]).match(args[1])
    if fn == 'create':
        return WriteToPaths().create(args[0])
    return FUNCS[fn](*args, **kw)


def run_one(c, job):
    try:
        return canon(exec_call(c, job)), ''
    except SpilException:
        return '', 'SpilException'
    except Exception as e:  # noqa
        return '', type(e).__name__


def events_since(n):
    out = []
    for (qual, args, kwargs, what, evicted) in caching._verif_events[n:]:
        out.append(dict(op='cev', f=qual, what=what, args=[arg_repr(a) for a in args],
                        kwargs=sorted([str(k), arg_repr(v)] for k, v in kwargs.items()),
                        evicted=[arg_repr(a) for a in evicted] if isinstance(evicted, tuple) else []))
    return out


def undo_create(job):
    # (plain file operation: the pristine interpreter must not resolve anything itself)
    p = job['missing_path']
    if p and os.path.exists(p):
        os.remove(p)


def in_child(fn):
    """run fn in a forked child, return its JSON result"""
    r, w = os.pipe()
    pid = os.fork()
    if pid == 0:
        os.close(r)
        try:
            res = fn()
        except BaseException as e:  # noqa
            res = dict(error=type(e).__name__ + ': ' + str(e)[:200], tb=traceback.format_exc()[-800:])
        with os.fdopen(w, 'w') as f:
            json.dump(res, f)
        os._exit(0)
    os.close(w)
    with os.fdopen(r) as f:
        data = f.read()
    os.waitpid(pid, 0)
    return json.loads(data) if data else dict(error='child died')


def setup(jobfile):
    """separate process: materialise the universe and derive the concrete arguments of the alphabet"""
    import ops_store
    job = json.load(open(jobfile))
    ops_store.ensure(job['univ'], False)
    pc = ops_store.pathconf()
    L = ops_store.entity_list(pc['default'])
    leaves = [e for e in L if len(e.split('/')) == max(len(x.split('/')) for x in L)]
    s1 = sorted(leaves)[0]
    sid1 = Sid(s1)
    parts = s1.split('/')
    s2 = '/'.join(parts[:-2])
    job.update(L=L, s1=s1, s2=s2, search1='/'.join(parts[:3]) + '/*', search2='/'.join(parts[:-1]) + '/*',
               search3='/'.join(parts[:2]) + '/**/' + job['alias'], search_gt='/'.join(parts[:-3]) + '/>',
               fields1=dict(sid1.fields), query1=Sid('/'.join(parts[:3])).as_query(), overlay=job['overlay_key'] + '=' + job['overlay_val'],
               type_of={s1: sid1.type, s2: Sid(s2).type},
               paths={c: str(sid1.path(c)) for c in pc['cfgs']},
               missing='/'.join(parts[:-1] + [job['missing_ext']]), roots=dict(pc['roots']),
               missing_path=str(Sid('/'.join(parts[:-1] + [job['missing_ext']])).path()),
               search_or='/'.join(parts[:2] + [parts[2] + ',' + job['other_level3']]) + '/*',
               search_or_alt='/'.join(parts[:2] + [job['other_level3']]) + '/*',
               search_or2=parts[0] + '/' + job['other_level2'] + ',' + parts[1] + '/*')
    json.dump(job, open(jobfile, 'w'))
    print(json.dumps(dict(setup=True, n=len(L))))


def main():
    if sys.argv[1] == '--setup':
        return setup(sys.argv[2])
    job = json.load(open(sys.argv[1]))
    prepare(job)
    A = build_alphabet(job)
    rnd = random.Random(job['seed'])
    create_id = len(A) - 1
    # histories: ordered pairs and longer random sequences; both cache capacities
    histories = []
    ids = list(range(len(A)))
    pairs = [(a, b) for a in ids for b in ids]
    rnd.shuffle(pairs)
    for a, b in pairs[:job['n_pairs']]:
        histories.append(dict(cap=4096, calls=[a, b]))
    for k in range(job['n_seqs']):
        n = rnd.randint(5, job['max_len'])
        histories.append(dict(cap=(3 if k % 2 else 4096), calls=[rnd.choice(ids) for _ in range(n)]))
    # must-have pairs: every call after every other spelling of the same function
    byfn = {}
    for i, c in enumerate(A):
        byfn.setdefault(c['fn'] + ':' + str(c['args'][:1]), []).append(i)
    for grp in byfn.values():
        for a in grp:
            for b in grp:
                if a != b:
                    histories.append(dict(cap=4096, calls=[a, b]))
    truth = {}

    def fresh(epoch, i):
        key = (epoch, i)
        if key not in truth:
            def f():
                for _ in range(epoch):
                    run_one(A[create_id], job)
                return run_one(A[i], job)
            truth[key] = in_child(f)
            undo_create(job)
        return truth[key]

    n_lines = 0
    with open(sys.argv[2], 'w') as out:
        for h in histories:
            # ground truth first (pristine children), then the history itself in one child
            epoch, need = 0, []
            for i in h['calls']:
                need.append((epoch, i))
                if i == create_id and epoch == 0:
                    epoch = 1
            fr = [fresh(e, i) for e, i in need]

            def run_history():
                caching._max_size = h['cap']
                lines = [dict(call=dict(op='creset', cap=h['cap'], seed=job['seed'], calls=h['calls']), obs={})]
                for ev in events_since(0):
                    lines.append(dict(call=ev, obs={}))
                for (e, i), tr in zip(need, fr):
                    n0 = len(caching._verif_events)
                    d, raised = run_one(A[i], job)
                    for ev in events_since(n0):
                        lines.append(dict(call=ev, obs={}))
                    lines.append(dict(call=dict(op='cret', fn=A[i]['fn'], id=i, norm=norm_of(A[i]), epoch=e,
                                                spelled=json.dumps(A[i])[:300]),
                                      obs=dict(digest=hashlib.sha1(d.encode()).hexdigest()[:16], raised=raised,
                                               fresh_digest=hashlib.sha1(tr[0].encode()).hexdigest()[:16] if isinstance(tr, list) else 'ERR',
                                               fresh_raised=tr[1] if isinstance(tr, list) else 'ERR', answer=d[:400],
                                               fresh_answer=(tr[0][:400] if isinstance(tr, list) else json.dumps(tr)[:400]))))
                return lines
            lines = in_child(run_history)
            undo_create(job)
            if isinstance(lines, dict):
                lines = [dict(call=dict(op='creset', cap=h['cap'], seed=job['seed'], calls=h['calls']), obs=dict(raised='HARNESS:' + json.dumps(lines)[:500]))]
            for ln in lines:
                out.write(json.dumps(ln) + '\n')
                n_lines += 1
    print(json.dumps(dict(histories=len(histories), lines=n_lines, alphabet=len(A))))


if __name__ == '__main__':
    main()
