"""Per-property check drivers.  Each one follows the same three steps:
   (a) TLC checks the property's invariants on the specification over the bounded family and
       dumps the family (spec -> code), (b) every dumped call / behaviour is executed against
       the real implementation, (c) TLC validates the recorded trace against the trace
       specification (code -> spec).  Drivers only move data; all semantics is in spec/*.tla."""
from __future__ import annotations
import json, os, random, sys, time
from common import Env, Machinery, SEED, tlc_ok
from pipeline import extract_conf, mc, calls_from_dump, execute, validate, trace_lines, tokens_of
from report import Report
import wire


def describe(rec):
    c = rec.get('call', {})
    op = c.get('op')
    try:
        if op in ('sid', 'forms', 'nav'):
            return '%s(%r)%s' % (op, wire.render_sid(c), (' via=' + c['via']) if c.get('via') else '')
        if op == 'query':
            return 'query[%s](%r ? %s)' % (c['mode'], wire.render_sid(dict(c, query=[])), '&'.join(k + '=' + v for k, v in c['pairs']))
        if op == 'getwith':
            return 'get_with(%r, %s)' % (wire.render_sid(dict(c, query=[])), dict((k, v) for k, v in c['kw']))
        if op == 'eqlaws':
            return 'eqlaws(%r, %r)' % (wire.render_sid(c['a']), wire.render_sid(c['b']))
        if op in ('unfold', 'findlist', 'match'):
            return '%s(%r)' % (op, wire.render_search(c['search']))
    except Exception:
        pass
    return json.dumps(c)[:300]


def _slim(rec):
    """keep replay files readable: cut very long observation lists"""
    txt = json.dumps(rec)
    if len(txt) < 20000:
        return rec
    def cut(v, depth=0):
        if isinstance(v, list):
            return [cut(x, depth + 1) for x in v[:12]] + (['...%d more' % (len(v) - 12)] if len(v) > 12 else [])
        if isinstance(v, dict):
            return {k: cut(x, depth + 1) for k, x in v.items()}
        return v
    return cut(rec)


def spec_to_code(rep: Report, env, conf, module, cfg, what, var='call', transform=None, timeout=3000,
                 extra_env=None, max_calls=None):
    """(a)+(b): model-check the family, dump it, return the calls."""
    r = mc(module, cfg, conf, dump=True, timeout=timeout, extra_env=extra_env)
    rep.add_tlc(r, what)
    if r.violation:
        rep.fail('spec-invariant', 'TLC found a violation of an invariant of %s/%s on the specification: %s'
                 % (module, cfg, _tlc_error(r.out)), record=dict(tlc_tail=r.out[-3000:]))
        return []
    tlc_ok(r, module + '/' + cfg)
    calls = calls_from_dump(r.dumpfile, var=var)
    try:
        os.remove(r.dumpfile)
    except OSError:
        pass
    if transform:
        calls = transform(calls)
    if max_calls and len(calls) > max_calls:
        rnd = random.Random(SEED)
        calls = rnd.sample(calls, max_calls)
    return calls


def _tlc_error(out):
    for line in out.splitlines():
        if 'violated' in line or line.startswith('Error:'):
            return line.strip()
    return 'see replay'


def code_to_spec(rep: Report, env, conf, calls, what, module='PureTrace', hashseed=0, kind=None, tag='t',
                 script='run_calls.py', extra=None, envs=None, per=500, chunk=20000, split_on=None, shard_key=None):
    """(b)+(c): execute calls on the implementation and validate the trace."""
    if not calls:
        return None
    trace = execute(env, calls, hashseed=hashseed, script=script, extra=extra, tag=tag, envs=envs, per=per, shard_key=shard_key)
    v = validate(trace, conf, module=module, chunk=chunk, split_on=split_on)
    rep.add_validation(v, what)
    if v['fails']:
        recs = trace_lines(trace, [i for i, _ in v['fails']])
        for i, clauses in v['fails']:
            rec = recs[i]
            rep.fail(kind or rec['call'].get('op', '?'), describe(rec) + ' fails ' + ','.join(clauses), record=_slim(rec), clauses=clauses)
    with open(trace) as f:
        for n, line in enumerate(f):
            if n % max(1, v['lines'] // 5) == 0:
                rep.sample(json.loads(line))
    return trace


# =========================================================================== C01
def check_C01(tier):
    rep = Report.get('C01', tier)
    env = Env()
    conf = extract_conf(env)
    calls = spec_to_code(rep, env, conf, 'MC_C01', 'MC_C01_%s.cfg' % tier, 'family of strings (bases x edits)')
    code_to_spec(rep, env, conf, calls, 'Sid(string) for every state of the family')
    # code -> spec on inputs the family does not generate: the repository's example Sids and seeded random junk
    import checks_more as M
    if not Report.redirect:
        M.run_driver(rep, env, 'example Sids of the repository and random strings (junk, control characters, prefixes) through Sid()',
                     M.driver_calls(env, tier, ops=('sid',)), 'drv01')
    rep.exhaustive = True
    typed = [t for t in rep.cover if t.startswith('sid:') and 'untyped' not in t]
    rep.guard(len(typed) >= 10 or not calls, 'fewer than 10 distinct result types exercised')
    rep.guard(any('untyped' in t for t in rep.cover) or not calls, 'no untyped result exercised')
    rep.assumptions = ['Accept relation = re.fullmatch(pattern, token) over the extracted vocabulary',
                       'family: every template x first PickN values per placeholder x <= MaxEdits edits (see spec/MC_C01*.cfg)']
    return rep.done()


REGISTRY = {k[6:]: v for k, v in list(globals().items()) if k.startswith('check_')}


def run(pid, tier):
    import checks_more  # noqa  (registers further properties)
    REGISTRY.update(checks_more.REGISTRY)
    if pid not in REGISTRY:
        print('no check for', pid)
        return 2
    return REGISTRY[pid](tier)


def replay(pid, path):
    """re-run the failing items of a replay file against the current tree"""
    import checks_more  # noqa
    payload = json.load(open(path))
    rep = Report(pid, 'quick')
    env = Env()
    calls = []
    for g in payload.get('groups', []):
        for ex in g.get('examples', []):
            rec = ex.get('record') or {}
            if 'call' in rec:
                calls.append(rec['call'])
    if not calls:
        print('replay file has no re-runnable calls; re-run the check itself')
        return 2
    if any(c.get('op', '') in ('dyn', 'dynreset', 'dynreads', 'dynfresh', 'vdyn', 'vreset', 'creset', 'cev', 'cret',
                               'wbegin', 'weffect', 'wsafe', 'wend', 'wcrash') or 'op' not in c for c in calls):
        print('the failing items are steps of a recorded behaviour (stateful model); re-run the check itself: ./check %s' % pid)
        return 2
    if any('univ' in c for c in calls):
        # calls over a materialised tree: the universes and the routing table are rebuilt first
        conf = extract_conf(env, extra_tokens=checks_more.VTOKENS)
        env.run('probe_routing.py', [conf])
        uni = checks_more._universes(env, conf)
        calls.sort(key=lambda c: c.get('univ', ''))
        code_to_spec(rep, env, conf, calls, 'replay of %s' % path, tag='replay',
                     extra={'SPIL_UNIVERSES': uni, 'SPIL_CONF_JSON': conf}, envs=checks_more.store_envs(4, env), per=40)
        return rep.done()
    conf = extract_conf(env, extra_tokens=[t for t in tokens_of(calls) if '/' not in t and len(t) < 40])
    code_to_spec(rep, env, conf, calls, 'replay of %s' % path)
    return rep.done()
