"""Verdict bookkeeping: failures -> known findings / violations, evidence, replay files."""
from __future__ import annotations
import json, os, re, time
from common import write_replay, write_evidence, load_findings, VERIF, SEED


class Report:
    def __init__(self, pid, tier, level='model_checking'):
        self.pid, self.tier, self.level = pid, tier, level
        self.t0 = time.time()
        self.items = []          # failing items: dict(kind, what, record, clauses)
        self.states = 0
        self.transitions = 0
        self.validated = 0       # trace lines validated against the implementation
        self.samples = []
        self.cover = {}
        self.notes = {}
        self.assumptions = []
        self.runs = []
        self.exhaustive = False
        self.guards = []         # vacuity guards that fired (machinery-level weakness, reported as failure)

    # ---- C20 runs the drivers of other properties under generated configurations: their reports are redirected
    redirect = None
    prefix = ''

    @classmethod
    def get(cls, pid, tier, level='model_checking'):
        if cls.redirect is not None:
            cls.redirect._sub = pid
            return cls.redirect
        return cls(pid, tier, level)

    def done(self):
        if Report.redirect is self:
            return 0
        return self.finish()

    # ---- accumulate
    def add_tlc(self, r, what):
        self.states += r.distinct
        self.transitions += r.generated
        self.runs.append(dict(what=what, distinct=r.distinct, generated=r.generated, wall_s=round(r.wall, 1)))

    def add_validation(self, v, what, trace=None):
        self.validated += v['lines']
        for t, c in v['cover'].items():
            if Report.redirect is self and Report.prefix:
                t = Report.prefix + '/' + t
            self.cover[t] = self.cover.get(t, 0) + c
        self.runs.append(dict(what=what, lines=v['lines'], failed=len(v['fails']), wall_s=round(v['wall'], 1)))

    def fail(self, kind, what, record=None, clauses=None, expected=None):
        if Report.redirect is self and Report.prefix:
            what = '[%s under configuration %s] %s' % (getattr(self, '_sub', '?'), Report.prefix, what)
        self.items.append(dict(kind=kind, what=what, record=record, clauses=clauses or [], expected=expected))

    def sample(self, x):
        if len(self.samples) < 6:
            self.samples.append(x)

    def guard(self, ok, what):
        if Report.redirect is self:
            return        # vacuity guards are tuned for the shipped configuration
        if not ok:
            self.guards.append(what)

    # ---- finish
    def finish(self):
        findings = [f for f in load_findings() if f.get('property') == self.pid and f.get('status') == 'open']
        known = {}
        violations = []
        for it in self.items:
            f = match_finding(findings, it)
            if f:
                known.setdefault(f['id'], [f, 0, it])
                known[f['id']][1] += 1
            else:
                violations.append(it)
        for fid, (f, n, it) in sorted(known.items()):
            print('KNOWN-FINDING: property=%s %s: %s (%d occurrence(s) in this run, e.g. %s)'
                  % (self.pid, fid, f['what'], n, it['what'][:160]))
        cov = dict(states=max(self.states, 0), transitions=max(self.transitions, 0),
                   traces_validated_against_impl=self.validated,
                   samples=self.samples or ['(no sample recorded)'],
                   evaluations=self.validated, distinct_nontrivial=len(self.cover) if self.cover else 0,
                   rule='one evaluation = one recorded call / step of the implementation validated by TLC against '
                        'the specification; distinct_nontrivial counts the distinct coverage tags (decision-table '
                        'rows, result types, action names) that the validated lines exercised',
                   cover=dict(sorted(self.cover.items())), runs=self.runs, exhaustive=self.exhaustive,
                   known_findings_hit=sorted(known), vacuity_guards_failed=self.guards, **self.notes)
        wall = time.time() - self.t0
        nviol = len(violations) + len(self.guards)
        write_evidence(self.pid, self.tier, self.level, cov, wall, nviol, self.assumptions)
        if self.guards and not violations:
            # a vacuous run is a broken check, not a property violation
            print('MACHINERY-FAILURE property=%s vacuity guard(s): %s' % (self.pid, '; '.join(self.guards)))
            return 2
        if violations:
            groups = {}
            for it in violations:
                groups.setdefault((it['kind'], tuple(it['clauses'])), []).append(it)
            payload = dict(property=self.pid, tier=self.tier, seed=SEED, n_violations=len(violations),
                           groups=[dict(kind=k[0], clauses=list(k[1]), count=len(v), examples=v[:5]) for k, v in groups.items()],
                           rerun='/verif/check %s --replay <this file>' % self.pid)
            path = write_replay(self.pid, payload)
            for k, v in list(groups.items())[:8]:
                print('  failing: kind=%s clauses=%s count=%d e.g. %s' % (k[0], list(k[1]), len(v), v[0]['what'][:200]))
            print('VIOLATION property=%s replay=%s' % (self.pid, path))
            return 1
        print('OK property=%s tier=%s states=%d validated=%d wall=%.0fs' % (self.pid, self.tier, self.states, self.validated, wall))
        return 0


def match_finding(findings, it):
    """A finding is identified by: the failing kind (op), a subset relation on the failing clauses,
    and regular expressions on the rendered input / the raised exception (call site)."""
    for f in findings:
        m = f.get('match', {})
        if m.get('kind') and m['kind'] != it['kind']:
            continue
        if m.get('clauses_subset_of') is not None and not set(it['clauses']) <= set(m['clauses_subset_of']):
            continue
        if m.get('clauses_any') and not (set(it['clauses']) & set(m['clauses_any'])):
            continue
        if m.get('what_regex') and not re.search(m['what_regex'], it['what']):
            continue
        rec = it.get('record') or {}
        raised = json.dumps(rec.get('obs', {}).get('raised', '')) if isinstance(rec, dict) else ''
        if m.get('raised_regex') and not re.search(m['raised_regex'], json.dumps(rec.get('obs', {}))):
            continue
        return f
    return None
