#!/bin/sh
# quick manual TLC run: tlcq.sh <dir> <module> [extra args]; filters the banner noise
d=$1; m=$2; shift 2
cd $d && timeout 600 java -XX:+UseParallelGC -Xss64m -cp /opt/veriftools/tla/tla2tools.jar:/opt/veriftools/tla/CommunityModules-deps.jar tlc2.TLC -metadir /tmp/tlcq-$$ -noGenerateSpecTE -config $m.cfg "$@" $m 2>&1 | grep -v '^\(TLC2\|Running\|Warning: Please\|(Use\|Parsing file\|Semantic processing\|Starting\.\.\.\|Computing initial\)' ; rm -rf /tmp/tlcq-$$
